(* C12 — Receive Maximum flow control.  Statements only; proofs in Conn/IdsQuota.v.
   Nothing else may be added to this file. *)
From MQ Require Import Base.Prelude Conn.Types Conn.ConnRecord Conn.Step Corr.ConnTrace Conn.IdsQuota Conn.Run Conn.Own Conn.OwnStep Conn.Witness Conn.PairQos Conn.PairQos5 Conn.PairSeq Conn.PairSeq5 Conn.PairConc Conn.PairConc5 Conn.PairBi Conn.PairBi5 Conn.PairManualSeq5 Conn.OwnFrame Conn.PairSeqMixed5 Conn.PairSeqMixed2 Conn.PairSeqMixed25.

(* the reported vacancy is M minus the count, saturating at zero: it never wraps or panics, for every
   M and every count *)
Theorem C12_vacancy_exact_saturating : forall c m,
  c_send_max c = Some m -> vacancy c = Some (m - c_send_count c) /\ m - c_send_count c <= m.
Proof. exact vacancy_exact_saturating. Qed.
Print Assumptions C12_vacancy_exact_saturating.

(* inbound: when the peer already has the locally announced maximum of QoS>0 PUBLISH outstanding,
   one more is answered as an error 'Receive Maximum exceeded' (DISCONNECT 0x93 + close when the
   connection is established) and is not delivered — for every state and every M *)
Theorem C12_inbound_over_quota : forall g c p m,
  c_recv_max c = Some m -> (k_qos p =? 0) = false -> m <= N.of_nat (length (c_publish_recv c)) ->
  recv_publish_v5 g c (PROk p) = handle_v5_error c E_RECEIVE_MAXIMUM_EXCEEDED.
Proof. exact inbound_over_quota. Qed.
Print Assumptions C12_inbound_over_quota.

(* ... and an accepted one keeps the outstanding set within the announced maximum *)
Theorem C12_note_inbound_quota : forall c p m,
  N.of_nat (length (c_publish_recv c)) < m \/ (k_qos p =? 0) = true ->
  N.of_nat (length (c_publish_recv c)) <= m ->
  N.of_nat (length (c_publish_recv (note_inbound c p))) <= m.
Proof. exact note_inbound_quota. Qed.
Print Assumptions C12_note_inbound_quota.

(* a refusal at the limit passes nothing to the transport and leaves the count untouched *)
Theorem C12_refuse_publish_is_quiet : forall c id err pre c' e,
  refuse_publish c id err pre = Ok (c', e) ->
  sends e = sends pre /\ In (EError err) e /\ c_send_count c' = c_send_count c /\ c_send_max c' = c_send_max c.
Proof. exact refuse_publish_is_quiet. Qed.
Print Assumptions C12_refuse_publish_is_quiet.

(* "returns to M when all exchanges complete", for every sequential run of two v5.0 endpoints (PairSeq5): whatever list of
   QoS 1/2 messages is exchanged from a pair of states satisfying the pair invariant, the run does not fail and ends in
   the pair invariant, in which the sender's vacancy is the full Receive Maximum and the receiver has nothing outstanding *)
Theorem C12_vacancy_returns_after_sequence : forall gs gr ps cs cr,
  pair_inv5 gs gr cs cr -> Forall (fun p => v5_pub p 1 \/ v5_pub p 2) ps ->
  match run_seq5 gs gr cs cr ps with
  | Done cs' cr' d => vacancy cs' = c_send_max cs' /\ c_publish_recv cr' = []
  | AppPre => True
  | Fail => False
  end.
Proof. exact vacancy_returns_after_sequence. Qed.
Print Assumptions C12_vacancy_returns_after_sequence.

(* A QoS 0 publication takes no slot (Conn/PairSeqMixed5.v): between exchanges, with both accounts at zero, it is accepted,
   notified, and the sender's count, the receiver's outstanding set and the vacancy are exactly what they were; and a
   sequence mixing QoS 0 with acknowledged exchanges ends with both accounts at zero again (pair_inv5) *)
Theorem C12_qos0_takes_no_slot : forall gs gr cs cr p, pair_inv5 gs gr cs cr -> v5_pub p 0 -> size_ok cs p = true ->
  exists cs' cr', exchange0_5 gs gr cs cr p = Done cs' cr' [p] /\ c_send_count cs' = 0 /\ c_publish_recv cr' = [] /\ vacancy cs' = c_send_max cs'.
Proof. exact qos0_takes_no_slot. Qed.
Print Assumptions C12_qos0_takes_no_slot.

Theorem C12_vacancy_returns_after_mixed_sequence : forall gs gr ps cs cr,
  pair_inv5 gs gr cs cr -> Forall v5_any ps ->
  match run_mixed5 gs gr cs cr ps with
  | Done cs' cr' d => d = ps /\ pair_inv5 gs gr cs' cr'
  | AppPre => True
  | Fail => False
  end.
Proof. exact run_mixed5_ok. Qed.
Print Assumptions C12_vacancy_returns_after_mixed_sequence.

(* ... and with either side publishing each item: all FOUR accounts (each side's send count, each side's outstanding inbound
   set) are at zero again after every exchange of the run (pair_inv52 = pair_inv5 in both directions; Conn/PairSeqMixed25.v) *)
Theorem C12_four_accounts_return_after_two_way_mixed_sequence : forall gA gB l a b,
  pair_inv52 gA gB a b -> Forall (fun i => v5_any (item_pkt i)) l ->
  match run_mixed52 gA gB a b l with
  | Done2 a' b' dB dA => dB = fromA l /\ dA = fromB l /\ pair_inv52 gA gB a' b'
  | AppPre2 => True
  | Fail2 => False
  end.
Proof. exact run_mixed52_ok. Qed.
Print Assumptions C12_four_accounts_return_after_two_way_mixed_sequence.

(* between two library endpoints the counter IS the number of incomplete exchanges and the quota is never exceeded: in every
   state of every schedule of publications and deliveries (several exchanges in flight, v5.0, automatic responses, intact
   links) [inv5] holds — c_send_count = number of exchanges in flight <= the peer's Receive Maximum, the receiver's outstanding
   set is its handled set — no step is 'Receive Maximum exceeded', and at rest the vacancy is the full maximum *)
Theorem C12_counter_is_exchanges_in_flight : forall gs gr l s,
  inv5 gs gr s -> Forall good_act5 l ->
  exists s1 s2, run_sched5 gs gr s l = Some s1 /\ run_sched5 gs gr s1 (drain5 (measure s1)) = Some s2 /\
                qsr s2 = [] /\ qrs s2 = [] /\ delivered s2 = published s1 /\
                vacancy (cs s2) = c_send_max (cs s2) /\ c_publish_recv (cr s2) = [] /\
                (forall m, c_send_max (cs s1) = Some m -> c_send_count (cs s1) = flight s1).
Proof. exact concurrent5_exactly_once. Qed.
Print Assumptions C12_counter_is_exchanges_in_flight.

(* the same with both sides publishing at once (Conn/PairBi5.v): in every state of every two-way schedule each side's counter
   is the number of its own exchanges in flight and within the other side's announced Receive Maximum *)
Theorem C12_two_way_counters : forall gA gB l s,
  inv25 gA gB s -> Forall good_act25 l ->
  exists s', run_sched25 gA gB s l = Some s' /\
    (forall m, c_send_max (ea s') = Some m -> c_send_count (ea s') = flight (vAB s') /\ flight (vAB s') <= m) /\
    (forall m, c_send_max (eb s') = Some m -> c_send_count (eb s') = flight (vBA s') /\ flight (vBA s') <= m).
Proof. exact two_way5_counters. Qed.
Print Assumptions C12_two_way_counters.

(* with MANUAL responses (Conn/PairManualSeq5.v): after any sequence of exchanges in which the applications send every
   acknowledgement themselves the vacancy is the full maximum again and nothing is outstanding at the receiver — the
   receiver's slot is given back by the send call that carries its application's PUBACK / PUBCOMP *)
Theorem C12_vacancy_returns_after_manual_sequence : forall gs gr ps cs cr,
  pair_inv5_m gs gr cs cr -> Forall (fun p => v5_pub p 1 \/ v5_pub p 2) ps ->
  match run_seq5_m gs gr cs cr ps with
  | Done cs' cr' d => vacancy cs' = c_send_max cs' /\ c_publish_recv cr' = []
  | AppPre => True
  | Fail => False
  end.
Proof. exact manual_vacancy_returns. Qed.
Print Assumptions C12_vacancy_returns_after_manual_sequence.

(* C12_partial: the invariant "publish_send_count = number of incomplete outbound QoS>0 exchanges of
   this connection, including retransmitted stored ones" over all histories is checked by the monitor
   mon_c12 (ghost multiset of open exchanges built from operations and events) against the
   implementation's counter and vacancy, and by the projection correspondence.  As a statement about ALL
   histories it is FALSE of the faithful model — and of the code: the three theorems below are its refutation,
   each a history of a fresh object inside the application contract of the ownership theorems after which the
   vacancy is the full Receive Maximum while an accepted, stored QoS>0 PUBLISH of this connection is still awaited
   with its identifier in use.  They are the known findings F-12d, F-12b, F-12c (known_findings.json; the same
   histories fail on the implementation, corpus/C12.cases); outside these classes the monitor reports a violation. *)
Theorem C12_count_exact_refuted_erase_before_resume :
  own_history_ok w12d_g (conn_new w12d_g V50) w12d_ops /\
  exists c, run_state w12d_g (conn_new w12d_g V50) w12d_ops = Some c /\ full_vacancy_with_open_exchange c 2.
Proof. exact (conj w12d_in_contract w12d_refutes). Qed.
Print Assumptions C12_count_exact_refuted_erase_before_resume.

Theorem C12_count_exact_refuted_late_pubrel :
  own_history_ok w12b_g (conn_new w12b_g V50) w12b_ops /\
  exists c, run_state w12b_g (conn_new w12b_g V50) w12b_ops = Some c /\ full_vacancy_with_open_exchange c 2.
Proof. exact (conj w12b_in_contract w12b_refutes). Qed.
Print Assumptions C12_count_exact_refuted_late_pubrel.

Theorem C12_count_exact_refuted_persistent_midway :
  own_history_ok w12c_g (conn_new w12c_g V50) w12c_ops /\
  exists c, run_state w12c_g (conn_new w12c_g V50) w12c_ops = Some c /\ full_vacancy_with_open_exchange c 2.
Proof. exact (conj w12c_in_contract w12c_refutes). Qed.
Print Assumptions C12_count_exact_refuted_persistent_midway.

Example C12_nonvacuous :
  let g := mkCfg RServer 65535 2 in
  let c := set_publish_recv (set_recv_max (set_status (conn_new g V50) Connected) (Some 1)) [7] in
  let p := mkPkt 3 V50 8 1 false false [116] None 0 0 8 false 0 false 0 None None None None None in
  match recv_publish_v5 g c (PROk p) with
  | Ok (_, e) => e = [ESend (disconnect_v5 147) None; EClose; EError E_RECEIVE_MAXIMUM_EXCEEDED]
  | Panic _ => False
  end.
Proof. vm_compute. reflexivity. Qed.
