(* C19 — close requests are ordered after the last packet to flush.  Statements only; proofs are
   in Conn/CloseOrder.v.  Nothing else may be added to this file. *)
From MQ Require Import Base.Prelude Conn.Types Conn.ConnRecord Conn.Step Conn.Run Corr.ConnTrace Mon.MonGate Conn.CloseOrder.

(* For EVERY state (reachable or not), configuration and API call of the connection model: in the
   returned event list no send request follows a close request, and every DISCONNECT and every
   CONNACK with a failure code that is requested for sending is followed by a close request in
   the same list.  close_ordered is the executable predicate the monitor also evaluates on the
   implementation's event lists. *)
Theorem C19_close_ordered_step : forall g c o, close_ordered (evs_of (step g c o)) = true.
Proof. exact close_ordered_step. Qed.
Print Assumptions C19_close_ordered_step.

(* hence for every event list of every history of any length, from any state *)
Theorem C19_close_ordered_history : forall g ops c,
  Forall (fun e => close_ordered e = true) (run_events g c ops).
Proof. exact close_ordered_history. Qed.
Print Assumptions C19_close_ordered_history.

(* on an established connection the expiry of a keep-alive timeout always requests close
   (a panic is only possible for an undetermined version, which is never established) *)
Theorem C19_timeout_closes : forall g c k,
  status_eqb (c_status c) Connected = true -> (k = TPingreqRecv \/ k = TPingrespRecv) ->
  match step g c (OTimer k) with
  | Ok (_, e, _) => existsb is_close e = true
  | Panic _ => c_version c = VUndet
  end.
Proof. exact timeout_closes. Qed.
Print Assumptions C19_timeout_closes.

(* non-vacuity: a v5.0 server whose peer sends a malformed PUBLISH while connected: the list holds
   DISCONNECT then close; and the predicate does reject a wrongly ordered list *)
Example C19_nonvacuous :
  let g := mkCfg RServer 65535 2 in
  let c := set_status (conn_new g V50) Connected in
  evs_of (step g c (ORecv [48; 2; 0; 0] (PRErr 129)))
    = [ESend (disconnect_v5 129) None; EClose; EError 129]
  /\ close_ordered [EClose; ESend (disconnect_v5 129) None] = false
  /\ close_ordered [ESend (disconnect_v5 129) None] = false.
Proof. vm_compute. repeat split. Qed.
