(* C20 — value allocator = set of free integers, smallest first.  Statements only; proofs are
   in Alloc/AllocProofs.v.  Nothing else may be added to this file. *)
From MQ Require Import Base.Prelude Alloc.Alloc Alloc.SetSpec Alloc.AllocProofs.

(* Every operation sequence that respects the Rust contract (deallocate only a value in use),
   over any range [lo,hi] of any integer type with maximum mx: the interval-list model never
   panics (no assert!, no +1/-1 overflow), gives exactly the answers of the plain set machine,
   and its run-length representation is the canonical one of the resulting free set: sorted,
   disjoint, maximally merged, inside [lo,hi]. *)
Theorem C20_alloc_refines_set : forall lo hi mx ops,
  lo <= hi -> hi <= mx -> s_pre_all (s_new lo hi) ops = true ->
  exists a0 a', a_new lo hi mx = Ok a0 /\
                a_run a0 ops = Ok (fst (s_run (s_new lo hi) ops), a') /\
                a_pool a' = s_repr (snd (s_run (s_new lo hi) ops)) /\
                wfp lo hi (a_pool a') /\
                (forall w, abs (a_pool a') w = s_free (snd (s_run (s_new lo hi) ops)) w).
Proof. exact alloc_refines_set. Qed.
Print Assumptions C20_alloc_refines_set.

(* one step, from any related pair of states *)
Theorem C20_step_refines : forall a s o,
  R a s -> s_pre s o = true ->
  exists a', a_step a o = Ok (fst (s_step s o), a') /\ R a' (snd (s_step s o)) /\ a_max a' = a_max a.
Proof. exact step_refines. Qed.
Print Assumptions C20_step_refines.

(* the set machine says what the property says: smallest free value first, nothing when none *)
Theorem C20_spec_allocate_least : forall s,
  asc (s_lo s) (s_hi s) (s_used s) ->
  match fst (s_allocate s) with
  | Some x => s_free s x = true /\ forall w, s_free s w = true -> x <= w
  | None => forall w, s_free s w = false
  end.
Proof. exact spec_allocate_least. Qed.
Print Assumptions C20_spec_allocate_least.

Theorem C20_spec_use_iff_free : forall s v, fst (s_use s v) = s_free s v.
Proof. exact spec_use_iff_free. Qed.
Print Assumptions C20_spec_use_iff_free.

Theorem C20_spec_out_of_range_not_used : forall s v, in_range s v = false -> s_is_used s v = false.
Proof. exact spec_out_of_range_not_used. Qed.
Print Assumptions C20_spec_out_of_range_not_used.

(* maximal merge, stated on the pool itself *)
Theorem C20_maximally_merged : forall b hi p y,
  wfp b hi p -> In y p -> abs p (snd y + 1) = false /\ (0 < fst y -> abs p (fst y - 1) = false).
Proof. exact wfp_maximal. Qed.
Print Assumptions C20_maximally_merged.

(* two well-formed pools with the same free set are the same list *)
Theorem C20_representation_unique : forall b hi p q,
  wfp b hi p -> wfp b hi q -> (forall w, abs p w = abs q w) -> p = q.
Proof. exact wfp_unique. Qed.
Print Assumptions C20_representation_unique.

(* non-vacuity: a contract-respecting sequence that splits, merges, exhausts and clears *)
Example C20_nonvacuous :
  let ops := [AAllocate; AAllocate; AUse 5; AUse 4; ADeallocate 1; AIsUsed 0; AIsUsed 9; ADeallocate 5;
              AAllocate; AAllocate; AAllocate; AAllocate; AAllocate; AAllocate; ACount; AClear; ACount] in
  s_pre_all (s_new 1 6) ops = true /\
  fst (s_run (s_new 1 6) ops) =
    [[1]; [2]; [1]; [1]; []; [0]; [0]; []; [1]; [3]; [5]; [6]; []; []; [0]; []; [1]].
Proof. vm_compute. split; reflexivity. Qed.
