(* C11 — send gating matches the MQTT rules.  Statements only; proofs in Conn/SendGate.v and
   GenChecks/C11.v.  Nothing else may be added to this file. *)
From MQ Require Import Base.Prelude Alloc.Alloc Conn.Types Conn.ConnRecord Conn.Step
                       Corr.ConnTrace Spec.MqttRules Mon.MonGate Conn.SendGate GenChecks.C11
                       Generated.ObservedSendable.

(* For EVERY state, role, version and well-formed packet view: if the MQTT rule table (role x
   version x connection state, Spec/MqttRules.v) does not allow the packet, nothing is passed to
   the transport. *)
Theorem C11_gate_sound : forall g c p,
  pkt_wf p = true ->
  may_send (g_role g) (c_version c) (c_status c) p = false ->
  match do_send g c p with Ok (_, e) => sends e = [] | Panic _ => True end.
Proof. exact gate_sound. Qed.
Print Assumptions C11_gate_sound.

(* ... and outside the stated exception (a QoS>0 PUBLISH or PUBREL of a persistent / offline
   session) the result is only error events plus the release of the packet's identifier, and the
   state is EQUAL to the state before the call up to that release: as if the call had not been made. *)
Theorem C11_refused_is_noop : forall g c p,
  pkt_wf p = true ->
  may_send (g_role g) (c_version c) (c_status c) p = false ->
  (storable_kind p && c_need_store c) = false ->
  refusal_ok c p (do_send g c p).
Proof. exact refused_is_noop. Qed.
Print Assumptions C11_refused_is_noop.

(* the compile-time-checked send accepts exactly the packet types the rule table lets the role
   originate: all 87 (type, role) cells, read off rustc's trait resolution on every run *)
Theorem C11_checked_send_table :
  forallb sendable_cell_ok observed_sendable = true /\
  list_eqb key_eqb (map cell_key observed_sendable) sendable_domain = true.
Proof. exact observed_sendable_is_rule_table. Qed.
Print Assumptions C11_checked_send_table.

(* non-vacuity: a connected v3.1.1 client refused a SUBACK keeps its state; a disconnected one is
   refused a SUBSCRIBE and the id it carried is released *)
Example C11_nonvacuous :
  let g := mkCfg RClient 65535 2 in
  let c0 := conn_new g V311 in
  let c1 := set_pid c0 (snd (pm_register (c_pid c0) 7)) in
  let sub := mkPkt 8 V311 7 0 false false [] None 0 0 10 false 0 false 0 None None None None None in
  may_send RClient V311 Disconnected sub = false /\
  do_send g c1 sub = Ok (c0, [EError E_NOT_ALLOWED_TO_SEND; EReleased 7]).
Proof. vm_compute. split; reflexivity. Qed.
