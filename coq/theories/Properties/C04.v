(* C04 — Decoder totality: no panic on any bytes; accepted input is canonical and valid.
   Statements only; proofs in Packet/RoundTrip.v, Packet/PrimProofs.v.  Nothing else. *)
From MQ Require Import Base.Prelude Packet.Prim Packet.PrimProofs Packet.Props Packet.Packets Packet.Decode Packet.RoundTrip
                       Packet.Canonical Packet.Canonical2.

(* the reference decoder is a total Gallina function on every byte list (structural recursion,
   explicit fuel = input length; there is no error outcome other than None); whatever it accepts
   satisfies the structural rules of the builders: non-zero identifiers, QoS 0..2, permitted
   properties only, valid codes ... *)
Theorem C04_decode_accepts_only_valid : forall v idw l b, decode v idw l = Some b -> body_ok v idw b = true.
Proof. exact decode_accepts_only_valid. Qed.
Print Assumptions C04_decode_accepts_only_valid.

(* ... and re-encodes/re-parses to itself *)
Theorem C04_accepted_reparses : forall v idw b,
  packet_ok v idw b = true -> decode v idw (encode v idw b) = Some b.
Proof. exact packet_roundtrip. Qed.
Print Assumptions C04_accepted_reparses.

(* ACCEPTED INPUT IS CANONICAL, for every byte list and all 29 kinds: whatever the reference decoder
   accepts as a control packet IS the reference encoding of the packet it returns — no second byte
   string decodes to the same packet, no non-minimal length, no slack — and that packet satisfies
   the builders' rules *)
Theorem C04_decode_canonical : forall v idw l b,
  all_bytes l = true -> decode v idw l = Some b -> encode v idw b = l /\ packet_ok v idw b = true.
Proof. exact decode_canonical. Qed.
Print Assumptions C04_decode_canonical.

(* the same for a property block on its own *)
Theorem C04_props_canonical : forall l ps t,
  all_bytes l = true -> dec_props l = Some (ps, t) ->
  l = enc_props ps ++ t /\ forallb prop_ok ps = true /\ N.of_nat (length (enc_props_body ps)) <= VBI_MAX.
Proof. exact props_canonical. Qed.
Print Assumptions C04_props_canonical.

(* accepted input is canonical: a Variable Byte Integer / length-prefixed field that is accepted IS
   the encoding of its value (so non-minimal integers are never accepted), for every byte list *)
Theorem C04_vbi_canonical : forall l n t,
  all_bytes l = true -> vbi_dec l = Some (n, t) -> l = vbi_enc n ++ t /\ n <= VBI_MAX.
Proof. exact vbi_dec_canonical. Qed.
Print Assumptions C04_vbi_canonical.

Theorem C04_lp_canonical : forall l d t,
  all_bytes l = true -> dec_lp l = Some (d, t) -> l = enc_lp d ++ t /\ N.of_nat (length d) <= 65535.
Proof. exact lp_canonical. Qed.
Print Assumptions C04_lp_canonical.

(* no decoder claims to have consumed more than it was given *)
Theorem C04_lp_consumes : forall l d t, dec_lp l = Some (d, t) -> (length d + length t + 2 = length l)%nat.
Proof. exact dec_lp_consumes. Qed.
Print Assumptions C04_lp_consumes.

Theorem C04_vbi_consumes : forall l n t,
  vbi_dec l = Some (n, t) -> (1 <= length l - length t <= 4)%nat /\ (length t <= length l)%nat.
Proof. exact vbi_dec_consumes. Qed.
Print Assumptions C04_vbi_consumes.

(* C04_partial: the statements above are about the reference decoder.  "No parser of the LIBRARY
   panics, over-reads or accepts an inconsistent packet" is decided on the implementation by the
   monitor mon_c04 (every parser under catch_unwind on exhaustive short bodies, structured
   mutations of valid encodings of every kind and random strings: consumed <= given, size() =
   length of the re-serialisation, re-parse equal, builder rules on the accessor values) and by
   the correspondence with the reference decoder (whatever the reference accepts the library
   accepts with the same field values).  Leniencies of the library that are self-consistent and
   break no builder rule (reserved CONNECT/CONNACK flag bits, trailing bytes, v5 option bits in
   v3.1.1 SUBSCRIBE entries, reason code on v3.1.1 acknowledgements, reason-code-only AUTH) are
   modelled as they are (Corr/PkCorr.v body_ok_lib). *)

Example C04_nonvacuous :
  decode PV50 2 [64; 4; 0; 0; 0; 0] = None /\                      (* PUBACK with identifier 0 *)
  decode PV50 2 [32; 4; 0; 0; 128; 0] = None /\                    (* non-minimal property length *)
  decode PV50 2 [32; 3; 0; 0; 0] = Some (BConnack false 0 []) /\
  vbi_dec [128; 0] = None /\ vbi_dec [127] = Some (127, []).
Proof. vm_compute. repeat split. Qed.
