(* C06 — Outbound QoS1/2: stored until acknowledged, retransmitted on session resume.
   Statements only; proofs in Conn/Session.v, Conn/StoreInv.v, Conn/StoreInv2.v, Conn/Own.v, Conn/OwnFrame.v, Conn/OwnStep.v, Conn/Accepted5.v and Conn/SupStep.v.  Nothing else may be added to this file. *)
From MQ Require Import Base.Prelude Alloc.Alloc Conn.Types Conn.ConnRecord Conn.Step Corr.ConnTrace Conn.Run Conn.RecvGate Conn.Session Conn.StoreInv Conn.StoreInv2 Conn.Own Conn.OwnFrame Conn.OwnStep Conn.Accepted5 Conn.SupFrame Conn.SupStep.

(* every state: an acknowledgement that matches nothing in flight is handled exactly like a
   protocol error — which erases no stored packet and frees no identifier (C06_error_keeps) *)
Theorem C06_unmatched_ack_is_error : forall g c v t p,
  (t = T_PUBACK /\ mem (k_pid p) (c_puback c) = false) \/
  (t = T_PUBREC /\ mem (k_pid p) (c_pubrec c) = false) \/
  (t = T_PUBCOMP /\ mem (k_pid p) (c_pubcomp c) = false) ->
  recv_ack g c v t (PROk p) = handle_error c v E_PROTOCOL.
Proof. exact unmatched_ack_is_error. Qed.
Print Assumptions C06_unmatched_ack_is_error.

Theorem C06_error_keeps : forall c v e, err_outcome c e (handle_error c v e).
Proof. exact handle_error_outcome. Qed.
Print Assumptions C06_error_keeps.

(* v3.1.1, every state: an accepted QoS>0 PUBLISH is requested for sending at once or is in the store *)
Theorem C06_accepted_sent_or_stored_v311 : forall c p,
  (k_qos p =? 0) = false ->
  match send_publish_v311 c p with
  | Ok (c', e) =>
      existsb is_error e = true \/ In p (sends e) \/
      existsb (fun q => k_pid q =? k_pid p) (c_store c') = true
  | Panic _ => True
  end.
Proof. exact accepted_sent_or_stored_v311. Qed.
Print Assumptions C06_accepted_sent_or_stored_v311.

(* ... and v5.0, every state: a QoS>0 PUBLISH accepted without an error event is requested for sending at once —
   as a PUBLISH with the same identifier (its topic may have been replaced by an alias) — or is in the store *)
Theorem C06_accepted_sent_or_stored_v5 : forall g c p,
  (k_qos p =? 0) = false ->
  match send_publish_v5 g c p with
  | Ok (c', e) =>
      has_error e \/ (exists q, In q (sends e) /\ k_type q = k_type p /\ k_pid q = k_pid p) \/
      store_has (k_pid p) (c_store c') = true
  | Panic _ => True
  end.
Proof. exact accepted_sent_or_stored_v5. Qed.
Print Assumptions C06_accepted_sent_or_stored_v5.

(* every call of the API, every state, both versions: a call that is not a release point for x keeps
   x's entry in the store.  Release points ([releases]): the matching kind of acknowledgement carrying
   x, erase_stored_publish x, a clean-start CONNECT sent or received, a CONNACK received that does not
   keep the session or under whose limit an entry of x no longer fits (the oversize drop on resume),
   a CONNACK sent while an entry of x does not fit the client's limit, a close that does not keep the
   session — and a v5.0 PUBLISH sent with x itself (excluded by the application contract). *)
Theorem C06_step_keeps_stored : forall x g c o,
  op_oracle_ok c o -> releases x c o = false -> store_has x (c_store c) = true ->
  match step g c o with Ok (c', _, _) => store_has x (c_store c') = true | Panic _ => True end.
Proof. exact step_keeps_stored. Qed.
Print Assumptions C06_step_keeps_stored.

(* every history without a release point for x, of any length: across persistent closes and resumes *)
Theorem C06_stored_until_released : forall x g ops c,
  store_has x (c_store c) = true -> quiet_history x g c ops ->
  match run_state g c ops with Some c' => store_has x (c_store c') = true | None => True end.
Proof. exact stored_until_released. Qed.
Print Assumptions C06_stored_until_released.

(* resume, client side: the call that processes a CONNACK with Session Present requests exactly the
   stored packets that fit the (possibly new) limit, in store order, as PUBLISH/PUBREL with the stored
   identifiers, and nothing else; what does not fit is no longer stored *)
Theorem C06_connack_received_resumes_in_order : forall c v p c' e,
  recv_connack c v (PROk p) = Ok (c', e) ->
  status_eqb (c_status c) Connected = false -> k_rc p = 0 -> k_flag p = true ->
  (version_eqb v V50 = true -> match k_sei p with Some 0 => False | _ => True end) ->
  sends e = map store_into (fst (send_stored_l (connack_limit c v p) (c_store c))) /\
  c_store c' = fst (send_stored_l (connack_limit c v p) (c_store c)).
Proof. exact connack_received_resumes_in_order. Qed.
Print Assumptions C06_connack_received_resumes_in_order.

(* resume, server side: right after the successful CONNACK, before any other packet *)
Theorem C06_connack_sent_resumes_in_order : forall c p c' e,
  send_connack c p = Ok (c', e) -> k_rc p = 0 -> existsb is_error e = false ->
  sends e = p :: map store_into (fst (send_stored_l (c_mps_send c) (c_store c))).
Proof. exact connack_sent_resumes_in_order. Qed.
Print Assumptions C06_connack_sent_resumes_in_order.

(* session not present: the store is emptied and nothing is retransmitted *)
Theorem C06_connack_without_session_empties_store : forall c v p c' e,
  recv_connack c v (PROk p) = Ok (c', e) ->
  status_eqb (c_status c) Connected = false -> k_rc p = 0 -> k_flag p = false ->
  c_store c' = [] /\ sends e = [].
Proof. exact connack_without_session_empties_store. Qed.
Print Assumptions C06_connack_without_session_empties_store.

(* THE IDENTIFIER OF A STORED EXCHANGE STAYS HELD.  [OWN g c] (Conn/Own.v: allocator well formed;
   stored identifiers in use and pairwise distinct; every stored packet awaited in exactly the set of its
   kind; the five awaited sets pairwise disjoint) is kept by EVERY call, whatever the peer sends, under
   the application's side of the contract [own_op_ok] (identifiers handed to send() are ones the
   application holds; release_packet_id is not called for a stored packet's identifier; restore_packets
   is given packets of this version with identifiers awaited nowhere) — so in every state of every such
   history each stored packet's identifier is in use and awaited in the set of its kind. *)
Theorem C06_history_keeps_ownership : forall g ops c,
  OWN g c -> c_version c <> VUndet -> own_history_ok g c ops ->
  match run_state g c ops with Some c' => OWN g c' | None => True end.
Proof. exact OWN_invariant. Qed.
Print Assumptions C06_history_keeps_ownership.
Theorem C06_stored_identifier_held : forall g c q, OWN g c -> In q (c_store c) ->
  is_used c (k_pid q) = true /\
  mem (k_pid q) (kset (response_of q) (c_puback c) (c_pubrec c) (c_pubcomp c)) = true /\ k_ver q = c_version c.
Proof. exact own_stored_held. Qed.
Print Assumptions C06_stored_identifier_held.

(* the matching acknowledgement of a stored packet erases exactly that packet and leaves its identifier
   awaited nowhere and on no stored packet (it is then released, or handed to the PUBREL) *)
Theorem C06_puback_completes : forall g c id, OWN g c -> mem id (c_puback c) = true ->
  let c1 := store_erase (set_puback c (del id (c_puback c))) (c_version c) T_PUBACK id in
  OWN g c1 /\ fresh c1 id /\ c_version c1 = c_version c.
Proof. exact ack_PA_own. Qed.
Print Assumptions C06_puback_completes.
Theorem C06_pubrec_completes : forall g c id, OWN g c -> mem id (c_pubrec c) = true ->
  let c1 := store_erase (set_pubrec c (del id (c_pubrec c))) (c_version c) T_PUBREC id in
  OWN g c1 /\ fresh c1 id /\ c_version c1 = c_version c.
Proof. exact ack_PB_own. Qed.
Print Assumptions C06_pubrec_completes.
Theorem C06_pubcomp_completes : forall g c id, OWN g c -> mem id (c_pubcomp c) = true ->
  let c1 := store_erase (set_pubcomp c (del id (c_pubcomp c))) (c_version c) T_PUBCOMP id in
  OWN g c1 /\ fresh c1 id /\ c_version c1 = c_version c.
Proof. exact ack_PC_own. Qed.
Print Assumptions C06_pubcomp_completes.

(* THE CONVERSE, for a persistent session: every identifier awaited in the PUBACK / PUBREC / PUBCOMP set has its
   packet in the store ([SUP]: nothing in flight is unsupported) — kept by EVERY call, for a determined version,
   given that persistence is switched on only while it is on already or nothing is in flight ([sup_op_ok]).  With
   C06_stored_identifier_held the store and the in-flight sets determine each other. *)
Theorem C06_step_keeps_awaited_stored : forall g c o,
  OWN g c -> SUP c -> c_version c <> VUndet -> own_op_ok c o -> sup_op_ok c o ->
  match step g c o with Ok (c', _, _) => SUP c' | Panic _ => True end.
Proof. exact step_keeps_SUP. Qed.
Print Assumptions C06_step_keeps_awaited_stored.

(* the store never holds anything but QoS 1/2 PUBLISH and PUBREL entries: every call, no hypothesis *)
Theorem C06_step_keeps_store_entries : forall g c o, ENT c ->
  match step g c o with Ok (c', _, _) => ENT c' | Panic _ => True end.
Proof. exact step_keeps_ENT. Qed.
Print Assumptions C06_step_keeps_store_entries.

(* C06_partial: on the MODEL side nothing of the property is left to the monitor alone.  The implementation
   is judged by mon_c06 (ghost store from operations and events against the exported store) and tied to the
   model by the correspondence.  (For an endpoint created with an undetermined version the ownership
   invariant is C08_fresh_ownership_invariant_any_version.) *)

Example C06_nonvacuous :
  let g := mkCfg RClient 65535 2 in
  let c := set_puback (set_status (conn_new g V311) Connected) [3] in
  let p := mkPkt 4 V311 9 0 false false [] None 0 0 4 false 0 false 0 None None None None None in
  match recv_ack g c V311 T_PUBACK (PROk p) with
  | Ok (c', e) => c_puback c' = [3] /\ In (EError E_PROTOCOL) e
  | Panic _ => False
  end.
Proof. vm_compute. split; [reflexivity|]. right; now left. Qed.

(* the history theorem's premises are satisfiable: a stored QoS 1 PUBLISH, a history with an unrelated
   acknowledgement error, a timer, a persistent close and a reconnect in it *)
Example C06_history_nonvacuous :
  let g := mkCfg RClient 65535 2 in
  let q := mkPkt 3 V311 7 1 true false [116] None 0 0 8 false 0 false 0 None None None None None in
  let c := set_need_store (set_store (set_puback (set_status (conn_new g V311) Connected) [7]) [q]) true in
  let cn := mkPkt 1 V311 0 0 false false [] None 0 0 14 false 0 false 0 None None None None None in
  let ops := [OTimer TPingreqSend; OSetAutoPub true; OClosed; OSend cn] in
  store_has 7 (c_store c) = true /\ quiet_history 7 g c ops /\
  match run_state g c ops with Some c' => c_status c' = Connecting /\ store_has 7 (c_store c') = true | None => False end.
Proof. vm_compute. repeat split; reflexivity. Qed.
