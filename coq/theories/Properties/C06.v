(* C06 — Outbound QoS1/2: stored until acknowledged, retransmitted on session resume.
   Statements only; proofs in Conn/Session.v.  Nothing else may be added to this file. *)
From MQ Require Import Base.Prelude Alloc.Alloc Conn.Types Conn.ConnRecord Conn.Step Corr.ConnTrace Conn.RecvGate Conn.Session.

(* every state: an acknowledgement that matches nothing in flight is handled exactly like a
   protocol error — which erases no stored packet and frees no identifier (C06_error_keeps) *)
Theorem C06_unmatched_ack_is_error : forall g c v t p,
  (t = T_PUBACK /\ mem (k_pid p) (c_puback c) = false) \/
  (t = T_PUBREC /\ mem (k_pid p) (c_pubrec c) = false) \/
  (t = T_PUBCOMP /\ mem (k_pid p) (c_pubcomp c) = false) ->
  recv_ack g c v t (PROk p) = handle_error c v E_PROTOCOL.
Proof. exact unmatched_ack_is_error. Qed.
Print Assumptions C06_unmatched_ack_is_error.

Theorem C06_error_keeps : forall c v e, err_outcome c e (handle_error c v e).
Proof. exact handle_error_outcome. Qed.
Print Assumptions C06_error_keeps.

(* v3.1.1, every state: an accepted QoS>0 PUBLISH is requested for sending at once or is in the store *)
Theorem C06_accepted_sent_or_stored_v311 : forall c p,
  (k_qos p =? 0) = false ->
  match send_publish_v311 c p with
  | Ok (c', e) =>
      existsb is_error e = true \/ In p (sends e) \/
      existsb (fun q => k_pid q =? k_pid p) (c_store c') = true
  | Panic _ => True
  end.
Proof. exact accepted_sent_or_stored_v311. Qed.
Print Assumptions C06_accepted_sent_or_stored_v311.

(* C06_partial: the history clauses (stays stored until exactly the matching acknowledgement;
   retransmission right after CONNACK, in order, DUP, full topic; emptied when the session is not
   present) and the v5.0 form of the theorem above are decided by the monitor mon_c06 — a ghost
   store built from operations and events compared with the exported store — and by the
   correspondence; they are not yet theorems. *)

Example C06_nonvacuous :
  let g := mkCfg RClient 65535 2 in
  let c := set_puback (set_status (conn_new g V311) Connected) [3] in
  let p := mkPkt 4 V311 9 0 false false [] None 0 0 4 false 0 false 0 None None None None None in
  match recv_ack g c V311 T_PUBACK (PROk p) with
  | Ok (c', e) => c_puback c' = [3] /\ In (EError E_PROTOCOL) e
  | Panic _ => False
  end.
Proof. vm_compute. split; [reflexivity|]. right; now left. Qed.
