(* C07 — Inbound QoS2 is delivered exactly once per exchange.  Statements only; proofs in
   Conn/Session.v, Conn/Qos2Inv.v, Conn/Qos2Inv2.v, Conn/Qos2Dup.v and Conn/Qos2Sub.v.  Nothing else may be added to this file. *)
From MQ Require Import Base.Prelude Alloc.Alloc Alloc.AllocProofs Conn.Types Conn.ConnRecord Conn.Step Corr.ConnTrace Conn.Run Conn.Session Conn.Qos2Inv Conn.Qos2Inv2 Conn.Qos2Dup Conn.Qos2Sub Conn.AscQos2.

(* v3.1.1, every state: a retransmission of a QoS 2 PUBLISH whose identifier is in the handled
   set is not notified again, and the identifier stays handled *)
Theorem C07_qos2_dup_not_notified_v311 : forall g c p,
  k_qos p = 2 -> mem (k_pid p) (c_qos2 c) = true ->
  match recv_publish_v311 g c (PROk p) with
  | Ok (c', e) => notifies e = [] /\ mem (k_pid p) (c_qos2 c') = true
  | Panic _ => True
  end.
Proof. exact qos2_dup_not_notified_v311. Qed.
Print Assumptions C07_qos2_dup_not_notified_v311.

(* both versions, every state: after a PUBREL the identifier is no longer handled, so the next
   PUBLISH with it is a new message *)
Theorem C07_pubrel_forgets : forall g c v p hi,
  asc 0 hi (c_qos2 c) ->
  match recv_pubrel g c v (PROk p) with
  | Ok (c', _) => mem (k_pid p) (c_qos2 c') = false
  | Panic _ => True
  end.
Proof. exact pubrel_forgets. Qed.
Print Assumptions C07_pubrel_forgets.

(* ... and the ordering hypothesis is an invariant of every history of a fresh object whose inbound QoS 2 identifiers
   and restored identifiers are within 1..M (AscQos2), so in every such state a PUBREL forgets the identifier *)
Theorem C07_pubrel_forgets_after_history : forall M g v ops c v' p,
  ids_history_ok M ops -> run_state g (conn_new g v) ops = Some c ->
  match recv_pubrel g c v' (PROk p) with
  | Ok (c', _) => mem (k_pid p) (c_qos2 c') = false
  | Panic _ => True
  end.
Proof. exact pubrel_forgets_after_history. Qed.
Print Assumptions C07_pubrel_forgets_after_history.

(* an automatically generated acknowledgement notifies nothing and leaves the handled set alone *)
Theorem C07_send_ack_quiet : forall c p,
  k_rc_present p = false ->
  match send_puback_like c p with
  | Ok (c', e) => notifies e = [] /\ c_qos2 c' = c_qos2 c
  | Panic _ => True
  end.
Proof. exact send_ack_quiet. Qed.
Print Assumptions C07_send_ack_quiet.

(* every call of the API, every state: a call that is not a release point for x (PUBREL received
   for x, error PUBREC sent for x, clean-start CONNECT sent or received, CONNACK without Session
   Present received, a close that does not keep the session, restore) keeps x in the handled set.
   [op_oracle_ok]: the parser verdict handed to the model is for the frame the bytes complete. *)
Theorem C07_step_keeps_handled : forall x g c o,
  op_oracle_ok c o -> releases x c o = false -> mem x (c_qos2 c) = true ->
  match step g c o with Ok (c', _, _) => mem x (c_qos2 c') = true | Panic _ => True end.
Proof. exact step_keeps_handled. Qed.
Print Assumptions C07_step_keeps_handled.

(* every history without a release point for x, of any length, both versions, across persistent
   closes and reconnects that keep the session *)
Theorem C07_handled_until_released : forall x g ops c,
  mem x (c_qos2 c) = true -> quiet_history x g c ops ->
  match run_state g c ops with Some c' => mem x (c_qos2 c') = true | None => True end.
Proof. exact handled_until_released. Qed.
Print Assumptions C07_handled_until_released.

(* ... so a v3.1.1 retransmission after any such history is still not notified *)
Theorem C07_dup_after_history_not_notified_v311 : forall x g ops c c' p,
  mem x (c_qos2 c) = true -> quiet_history x g c ops -> run_state g c ops = Some c' ->
  k_qos p = 2 -> k_pid p = x ->
  match recv_publish_v311 g c' (PROk p) with
  | Ok (c'', e) => notifies e = [] /\ mem x (c_qos2 c'') = true
  | Panic _ => True
  end.
Proof. exact dup_after_history_not_notified_v311. Qed.
Print Assumptions C07_dup_after_history_not_notified_v311.

(* BOTH VERSIONS, EVERY STATE, PER CALL (Conn/Qos2Dup.v).  A first QoS 2 PUBLISH (identifier not handled)
   is notified exactly once and becomes handled; a retransmission (identifier handled) is not notified,
   stays handled and — on an established connection — is answered with PUBREC whether or not automatic
   responses are on (v5.0: unless the call reports an error, e.g. a PUBREC that does not fit the peer's
   Maximum Packet Size, an invalid Topic Alias, Receive Maximum exceeded). *)
Theorem C07_first_notified_v311 : forall g c p,
  k_qos p = 2 -> mem (k_pid p) (c_qos2 c) = false ->
  match recv_publish_v311 g c (PROk p) with
  | Ok (c', e) => notifies e = [p] /\ mem (k_pid p) (c_qos2 c') = true
  | Panic _ => True
  end.
Proof. exact qos2_first_notified_v311. Qed.
Print Assumptions C07_first_notified_v311.
Theorem C07_first_notified_v5 : forall g c p,
  k_qos p = 2 -> mem (k_pid p) (c_qos2 c) = false ->
  match recv_publish_v5 g c (PROk p) with
  | Ok (c', e) => errors e = [] -> exists q, notifies e = [q] /\ k_pid q = k_pid p /\ mem (k_pid p) (c_qos2 c') = true
  | Panic _ => True
  end.
Proof. exact qos2_first_notified_v5. Qed.
Print Assumptions C07_first_notified_v5.
Theorem C07_dup_answered_v311 : forall g c p,
  k_qos p = 2 -> mem (k_pid p) (c_qos2 c) = true -> status_eqb (c_status c) Connected = true ->
  match recv_publish_v311 g c (PROk p) with
  | Ok (c', e) => notifies e = [] /\ mem (k_pid p) (c_qos2 c') = true /\
                  (errors e = [] -> exists q, In q (sends e) /\ k_type q = T_PUBREC /\ k_pid q = k_pid p)
  | Panic _ => True
  end.
Proof. exact qos2_dup_answered_v311. Qed.
Print Assumptions C07_dup_answered_v311.
Theorem C07_dup_answered_v5 : forall g c p,
  k_qos p = 2 -> mem (k_pid p) (c_qos2 c) = true ->
  match recv_publish_v5 g c (PROk p) with
  | Ok (c', e) => notifies e = [] /\ mem (k_pid p) (c_qos2 c') = true /\
                  (status_eqb (c_status c) Connected = true -> errors e = [] ->
                   exists q, In q (sends e) /\ k_type q = T_PUBREC /\ k_pid q = k_pid p)
  | Panic _ => True
  end.
Proof. exact qos2_dup_answered_v5. Qed.
Print Assumptions C07_dup_answered_v5.

(* THE CONVERSE OVER HISTORIES (Conn/Qos2Sub.v, a walk through every function of the model): an identifier
   ENTERS the handled set only through a received packet that carries it or through
   restore_qos2_publish_handled; every other call leaves a not-handled identifier not handled.  So after
   ANY history through which x could not enter — in particular any history of a fresh object in which no
   received packet carried x — a QoS 2 PUBLISH with identifier x is notified: none is swallowed. *)
Theorem C07_step_enters_only : forall x g c o,
  enters x o = false ->
  match step g c o with Ok (c', _, _) => mem x (c_qos2 c') = true -> mem x (c_qos2 c) = true | Panic _ => True end.
Proof. exact step_enters_only. Qed.
Print Assumptions C07_step_enters_only.
Theorem C07_not_handled_until_entered : forall x g ops c,
  mem x (c_qos2 c) = false -> no_entry x ops = true ->
  match run_state g c ops with Some c' => mem x (c_qos2 c') = false | None => True end.
Proof. exact not_handled_until_entered. Qed.
Print Assumptions C07_not_handled_until_entered.
Theorem C07_first_after_history_notified_v311 : forall x g ops c c' p,
  mem x (c_qos2 c) = false -> no_entry x ops = true -> run_state g c ops = Some c' -> k_qos p = 2 -> k_pid p = x ->
  match recv_publish_v311 g c' (PROk p) with
  | Ok (c'', e) => notifies e = [p] /\ mem x (c_qos2 c'') = true
  | Panic _ => True
  end.
Proof. exact first_after_history_notified_v311. Qed.
Print Assumptions C07_first_after_history_notified_v311.
Theorem C07_first_after_history_notified_v5 : forall x g ops c c' p,
  mem x (c_qos2 c) = false -> no_entry x ops = true -> run_state g c ops = Some c' -> k_qos p = 2 -> k_pid p = x ->
  match recv_publish_v5 g c' (PROk p) with
  | Ok (c'', e) => errors e = [] -> exists q, notifies e = [q] /\ k_pid q = x /\ mem x (c_qos2 c'') = true
  | Panic _ => True
  end.
Proof. exact first_after_history_notified_v5. Qed.
Print Assumptions C07_first_after_history_notified_v5.

(* C07_partial: on the MODEL side nothing of the property is left to the monitor alone: handled <=> (notified
   or restored) and not released since, by C07_handled_until_released and C07_not_handled_until_entered,
   and what a call does in either case by the four per-call theorems.  The implementation is judged by
   mon_c07 (a ghost set of notified-and-unreleased identifiers built from its events) and tied to the model
   by the correspondence. *)

Example C07_nonvacuous :
  let g := mkCfg RServer 65535 2 in
  let c := set_qos2 (set_status (conn_new g V311) Connected) [7] in
  let p := mkPkt 3 V311 7 2 true false [116] None 0 0 8 false 0 false 0 None None None None None in
  match recv_publish_v311 g c (PROk p) with
  | Ok (c', e) => notifies e = [] /\ mem 7 (c_qos2 c') = true /\ asc 0 65535 (c_qos2 c)
  | Panic _ => False
  end.
Proof. vm_compute. repeat split; try reflexivity; discriminate. Qed.

(* the history theorem's premises are satisfiable: a handled identifier, a history with a
   persistent close in it, no release point *)
Example C07_history_nonvacuous :
  let g := mkCfg RServer 65535 2 in
  let c := set_need_store (set_qos2 (set_status (conn_new g V311) Connected) [7]) true in
  let ops := [OAcquire; OSetAutoPub true; OTimer TPingreqSend; OClosed; ORelease 1] in
  mem 7 (c_qos2 c) = true /\ quiet_history 7 g c ops /\
  match run_state g c ops with Some c' => c_status c' = Disconnected | None => False end.
Proof. vm_compute. repeat split; reflexivity. Qed.

(* the converse history theorem's premises are satisfiable and the conclusion is not trivial: after a history
   with other traffic (identifier 9 received, released, a persistent close) a PUBLISH with identifier 7 is a
   first one and is notified *)
Example C07_converse_nonvacuous :
  let g := mkCfg RServer 65535 2 in
  let c := set_need_store (set_qos2 (set_status (conn_new g V311) Connected) [9]) true in
  let p9 := mkPkt 6 V311 9 0 false false [] None 0 0 4 false 0 false 0 None None None None None in
  let p := mkPkt 3 V311 7 2 false false [116] None 0 0 8 false 0 false 0 None None None None None in
  let ops := [OAcquire; ORecv [98; 2; 0; 9] (PROk p9); OTimer TPingreqSend; OClosed] in
  mem 7 (c_qos2 c) = false /\ no_entry 7 ops = true /\
  match run_state g c ops with
  | Some c' => match recv_publish_v311 g c' (PROk p) with Ok (_, e) => notifies e = [p] | Panic _ => False end
  | None => False
  end.
Proof. vm_compute. repeat split; reflexivity. Qed.
