(* C07 — Inbound QoS2 is delivered exactly once per exchange.  Statements only; proofs in
   Conn/Session.v.  Nothing else may be added to this file. *)
From MQ Require Import Base.Prelude Alloc.Alloc Alloc.AllocProofs Conn.Types Conn.ConnRecord Conn.Step Corr.ConnTrace Conn.Session.

(* v3.1.1, every state: a retransmission of a QoS 2 PUBLISH whose identifier is in the handled
   set is not notified again, and the identifier stays handled *)
Theorem C07_qos2_dup_not_notified_v311 : forall g c p,
  k_qos p = 2 -> mem (k_pid p) (c_qos2 c) = true ->
  match recv_publish_v311 g c (PROk p) with
  | Ok (c', e) => notifies e = [] /\ mem (k_pid p) (c_qos2 c') = true
  | Panic _ => True
  end.
Proof. exact qos2_dup_not_notified_v311. Qed.
Print Assumptions C07_qos2_dup_not_notified_v311.

(* both versions, every state: after a PUBREL the identifier is no longer handled, so the next
   PUBLISH with it is a new message *)
Theorem C07_pubrel_forgets : forall g c v p hi,
  asc 0 hi (c_qos2 c) ->
  match recv_pubrel g c v (PROk p) with
  | Ok (c', _) => mem (k_pid p) (c_qos2 c') = false
  | Panic _ => True
  end.
Proof. exact pubrel_forgets. Qed.
Print Assumptions C07_pubrel_forgets.

(* an automatically generated acknowledgement notifies nothing and leaves the handled set alone *)
Theorem C07_send_ack_quiet : forall c p,
  k_rc_present p = false ->
  match send_puback_like c p with
  | Ok (c', e) => notifies e = [] /\ c_qos2 c' = c_qos2 c
  | Panic _ => True
  end.
Proof. exact send_ack_quiet. Qed.
Print Assumptions C07_send_ack_quiet.

(* C07_partial: the history statement (at most one notification between PUBRELs, none swallowed,
   across reconnects and export/restore, v5.0 included) is decided by the monitor mon_c07 — a
   ghost set of notified-and-unreleased identifiers built from the implementation's events — and
   by the correspondence; the per-step facts above are the theorems. *)

Example C07_nonvacuous :
  let g := mkCfg RServer 65535 2 in
  let c := set_qos2 (set_status (conn_new g V311) Connected) [7] in
  let p := mkPkt 3 V311 7 2 true false [116] None 0 0 8 false 0 false 0 None None None None None in
  match recv_publish_v311 g c (PROk p) with
  | Ok (c', e) => notifies e = [] /\ mem 7 (c_qos2 c') = true /\ asc 0 65535 (c_qos2 c)
  | Panic _ => False
  end.
Proof. vm_compute. repeat split; try reflexivity; discriminate. Qed.
