(* C07 — Inbound QoS2 is delivered exactly once per exchange.  Statements only; proofs in
   Conn/Session.v, Conn/Qos2Inv.v and Conn/Qos2Inv2.v.  Nothing else may be added to this file. *)
From MQ Require Import Base.Prelude Alloc.Alloc Alloc.AllocProofs Conn.Types Conn.ConnRecord Conn.Step Corr.ConnTrace Conn.Run Conn.Session Conn.Qos2Inv Conn.Qos2Inv2.

(* v3.1.1, every state: a retransmission of a QoS 2 PUBLISH whose identifier is in the handled
   set is not notified again, and the identifier stays handled *)
Theorem C07_qos2_dup_not_notified_v311 : forall g c p,
  k_qos p = 2 -> mem (k_pid p) (c_qos2 c) = true ->
  match recv_publish_v311 g c (PROk p) with
  | Ok (c', e) => notifies e = [] /\ mem (k_pid p) (c_qos2 c') = true
  | Panic _ => True
  end.
Proof. exact qos2_dup_not_notified_v311. Qed.
Print Assumptions C07_qos2_dup_not_notified_v311.

(* both versions, every state: after a PUBREL the identifier is no longer handled, so the next
   PUBLISH with it is a new message *)
Theorem C07_pubrel_forgets : forall g c v p hi,
  asc 0 hi (c_qos2 c) ->
  match recv_pubrel g c v (PROk p) with
  | Ok (c', _) => mem (k_pid p) (c_qos2 c') = false
  | Panic _ => True
  end.
Proof. exact pubrel_forgets. Qed.
Print Assumptions C07_pubrel_forgets.

(* an automatically generated acknowledgement notifies nothing and leaves the handled set alone *)
Theorem C07_send_ack_quiet : forall c p,
  k_rc_present p = false ->
  match send_puback_like c p with
  | Ok (c', e) => notifies e = [] /\ c_qos2 c' = c_qos2 c
  | Panic _ => True
  end.
Proof. exact send_ack_quiet. Qed.
Print Assumptions C07_send_ack_quiet.

(* every call of the API, every state: a call that is not a release point for x (PUBREL received
   for x, error PUBREC sent for x, clean-start CONNECT sent or received, CONNACK without Session
   Present received, a close that does not keep the session, restore) keeps x in the handled set.
   [op_oracle_ok]: the parser verdict handed to the model is for the frame the bytes complete. *)
Theorem C07_step_keeps_handled : forall x g c o,
  op_oracle_ok c o -> releases x c o = false -> mem x (c_qos2 c) = true ->
  match step g c o with Ok (c', _, _) => mem x (c_qos2 c') = true | Panic _ => True end.
Proof. exact step_keeps_handled. Qed.
Print Assumptions C07_step_keeps_handled.

(* every history without a release point for x, of any length, both versions, across persistent
   closes and reconnects that keep the session *)
Theorem C07_handled_until_released : forall x g ops c,
  mem x (c_qos2 c) = true -> quiet_history x g c ops ->
  match run_state g c ops with Some c' => mem x (c_qos2 c') = true | None => True end.
Proof. exact handled_until_released. Qed.
Print Assumptions C07_handled_until_released.

(* ... so a v3.1.1 retransmission after any such history is still not notified *)
Theorem C07_dup_after_history_not_notified_v311 : forall x g ops c c' p,
  mem x (c_qos2 c) = true -> quiet_history x g c ops -> run_state g c ops = Some c' ->
  k_qos p = 2 -> k_pid p = x ->
  match recv_publish_v311 g c' (PROk p) with
  | Ok (c'', e) => notifies e = [] /\ mem x (c_qos2 c'') = true
  | Panic _ => True
  end.
Proof. exact dup_after_history_not_notified_v311. Qed.
Print Assumptions C07_dup_after_history_not_notified_v311.

(* C07_partial: what is still decided by the monitor mon_c07 (a ghost set of notified-and-unreleased
   identifiers built from the implementation's events) and the correspondence rather than a theorem:
   "none swallowed" (a first PUBLISH is notified) over histories, and the v5.0 duplicate path, whose
   per-step facts are in Conn/Session.v. *)

Example C07_nonvacuous :
  let g := mkCfg RServer 65535 2 in
  let c := set_qos2 (set_status (conn_new g V311) Connected) [7] in
  let p := mkPkt 3 V311 7 2 true false [116] None 0 0 8 false 0 false 0 None None None None None in
  match recv_publish_v311 g c (PROk p) with
  | Ok (c', e) => notifies e = [] /\ mem 7 (c_qos2 c') = true /\ asc 0 65535 (c_qos2 c)
  | Panic _ => False
  end.
Proof. vm_compute. repeat split; try reflexivity; discriminate. Qed.

(* the history theorem's premises are satisfiable: a handled identifier, a history with a
   persistent close in it, no release point *)
Example C07_history_nonvacuous :
  let g := mkCfg RServer 65535 2 in
  let c := set_need_store (set_qos2 (set_status (conn_new g V311) Connected) [7]) true in
  let ops := [OAcquire; OSetAutoPub true; OTimer TPingreqSend; OClosed; ORelease 1] in
  mem 7 (c_qos2 c) = true /\ quiet_history 7 g c ops /\
  match run_state g c ops with Some c' => c_status c' = Disconnected | None => False end.
Proof. vm_compute. repeat split; reflexivity. Qed.
