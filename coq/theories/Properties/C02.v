(* C02 — Codec round-trip: every buildable packet survives encode -> parse unchanged.  Statements
   only; proofs in Packet/RoundTrip.v, Packet/PrimProofs.v, Packet/PropsProofs.v.  Nothing else. *)
From MQ Require Import Base.Prelude Packet.Prim Packet.PrimProofs Packet.Props Packet.PropsProofs Packet.Packets Packet.Decode Packet.RoundTrip.

(* every packet the builders accept — all 29 kinds, v3.1.1 and v5.0, 16- and 32-bit identifiers,
   optional fields present or absent, any number of properties, strings/binaries/payloads of every
   length — decodes from its own encoding to itself, the decoder consuming exactly the body *)
Theorem C02_packet_roundtrip : forall v idw b,
  packet_ok v idw b = true -> decode v idw (encode v idw b) = Some b.
Proof. exact packet_roundtrip. Qed.
Print Assumptions C02_packet_roundtrip.

(* the Remaining Length field is the length of the body, and the total size is
   1 + size of that field + body, on both sides of every length boundary *)
Theorem C02_remaining_length_field : forall v idw b,
  packet_ok v idw b = true ->
  exists rest, encode v idw b = (type_of b * 16 + flags_of b) :: vbi_enc (N.of_nat (length rest)) ++ rest /\
               rest = enc_body v idw b /\
               N.of_nat (length (encode v idw b)) = 1 + vbi_size (N.of_nat (length rest)) + N.of_nat (length rest).
Proof. exact remaining_length_field. Qed.
Print Assumptions C02_remaining_length_field.

(* Variable Byte Integer: every value up to 268 435 455 (boundaries 127/128, 16 383/16 384,
   2 097 151/2 097 152 included — by arithmetic, not by sampling) *)
Theorem C02_vbi_roundtrip : forall n r, n <= VBI_MAX -> vbi_dec (vbi_enc n ++ r) = Some (n, r).
Proof. exact vbi_roundtrip. Qed.
Print Assumptions C02_vbi_roundtrip.

Theorem C02_props_roundtrip : forall ps r,
  forallb prop_ok ps = true -> N.of_nat (length (enc_props_body ps)) <= VBI_MAX ->
  dec_props (enc_props ps ++ r) = Some (ps, r).
Proof. exact props_roundtrip. Qed.
Print Assumptions C02_props_roundtrip.

Theorem C02_str_roundtrip : forall s r, str_ok s = true -> dec_str (enc_lp s ++ r) = Some (s, r).
Proof. exact str_roundtrip. Qed.
Print Assumptions C02_str_roundtrip.

(* The theorems are about the reference codec of Packet/Packets.v.  Tie (every run): the builders
   accept exactly the packets with packet_ok = true and produce exactly `encode`; the library's own
   size(), to_buffers() concatenation, re-parse and consumed count are checked on the
   implementation by the monitor mon_c02. *)

Example C02_nonvacuous :
  let b := BPublish false 1 true [116; 47; 49] (Some 65535) [mkProp 35 (VU16 7); mkProp 38 (VPair [107] [118])] [1; 2; 3] in
  packet_ok PV50 2 b = true /\ decode PV50 2 (encode PV50 2 b) = Some b /\
  encode PV50 2 b = [51; 21; 0; 3; 116; 47; 49; 255; 255; 10; 35; 0; 7; 38; 0; 1; 107; 0; 1; 118; 1; 2; 3].
Proof. vm_compute. repeat split. Qed.
