(* C17 — receive gating by role, and protocol-version auto-detection.  Statements only; proofs are
   in Conn/RecvGate.v.  Nothing else may be added to this file. *)
From MQ Require Import Base.Prelude Framing.Framing Conn.Types Conn.ConnRecord Conn.Step Conn.Run
                       Corr.ConnTrace Spec.MqttRules Conn.RecvGate.

(* For EVERY state with a determined version: a complete frame of a kind the MQTT rule table
   (Spec/MqttRules.v) never lets the peer of this role send yields exactly one error event and the
   state is unchanged: never delivered, never acted upon. *)
Theorem C17_forbidden_kind_is_error : forall g c fh body pr,
  c_version c <> VUndet -> fits c body = true ->
  may_receive (g_role g) (c_version c) (fh / 16) = false -> fh < 256 ->
  exists e, process_recv_packet g c fh body pr = Ok (c, [EError e]) /\ (e = E_PROTOCOL \/ e = E_MALFORMED).
Proof. exact forbidden_kind_is_error. Qed.
Print Assumptions C17_forbidden_kind_is_error.

(* a CONNECT or a CONNACK frame on an established connection: protocol error, nothing delivered,
   session state (ids, in-flight sets, store, need_store, QoS2 handled ids) equal to before *)
Theorem C17_established_is_protocol_error : forall g c fh body pr,
  c_status c = Connected -> c_version c <> VUndet -> fits c body = true ->
  (fh / 16 = 1 \/ fh / 16 = 2) -> can_receive g c (fh / 16) = true ->
  err_outcome c E_PROTOCOL (process_recv_packet g c fh body pr).
Proof. exact established_is_protocol_error. Qed.
Print Assumptions C17_established_is_protocol_error.

(* an undetermined server: any first frame other than a CONNECT of level 4 or 5 is an error and
   changes nothing *)
Theorem C17_undetermined_rejects : forall g c fh body pr,
  c_version c = VUndet -> fits c body = true -> ~ (exists v, good_first fh body v) ->
  exists e, process_recv_packet g c fh body pr = Ok (c, [EError e]).
Proof. exact undetermined_rejects. Qed.
Print Assumptions C17_undetermined_rejects.

(* ... and a good CONNECT makes it EQUAL (state and events) to a server created with that version,
   hence it produces the same events for every continuation of any length *)
Theorem C17_undetermined_equiv : forall g v bytes pr hdr body pb' rest h,
  feed pb_init bytes = (FComplete hdr body, pb', rest) ->
  g_role g <> RClient ->
  fits (conn_new g VUndet) body = true ->
  good_first (hd 0 hdr) body v ->
  run_events g (conn_new g VUndet) (ORecv bytes pr :: h) = run_events g (conn_new g v) (ORecv bytes pr :: h).
Proof. exact undetermined_equiv. Qed.
Print Assumptions C17_undetermined_equiv.

(* non-vacuity: a v3.1.1 client that receives PINGREQ (type 12); a connected client that receives
   a second CONNACK *)
Example C17_nonvacuous :
  let g := mkCfg RClient 65535 2 in
  let c := set_status (conn_new g V311) Connected in
  may_receive RClient V311 12 = false /\
  process_recv_packet g c 192 [] (PROk (pkt0 12 V311)) = Ok (c, [EError E_PROTOCOL]) /\
  process_recv_packet g c 32 [0; 0] (PROk (pkt0 2 V311)) = Ok (c, [EClose; EError E_PROTOCOL]).
Proof. vm_compute. repeat split. Qed.
