(* C17 — receive gating by role, and protocol-version auto-detection.  Statements only; proofs are
   in Conn/RecvGate.v.  Nothing else may be added to this file. *)
From MQ Require Import Base.Prelude Framing.Framing Conn.Types Conn.ConnRecord Conn.Step Conn.Run
                       Corr.ConnTrace Spec.MqttRules Mon.MonGate Conn.SendGate Conn.RecvGate Conn.GateDual.

(* For EVERY state with a determined version: a complete frame of a kind the MQTT rule table
   (Spec/MqttRules.v) never lets the peer of this role send yields exactly one error event and the
   state is unchanged: never delivered, never acted upon. *)
Theorem C17_forbidden_kind_is_error : forall g c fh body pr,
  c_version c <> VUndet -> fits c body = true ->
  may_receive (g_role g) (c_version c) (fh / 16) = false -> fh < 256 ->
  exists e, process_recv_packet g c fh body pr = Ok (c, [EError e]) /\ (e = E_PROTOCOL \/ e = E_MALFORMED).
Proof. exact forbidden_kind_is_error. Qed.
Print Assumptions C17_forbidden_kind_is_error.

(* a CONNECT or a CONNACK frame on an established connection: protocol error, nothing delivered,
   session state (ids, in-flight sets, store, need_store, QoS2 handled ids) equal to before *)
Theorem C17_established_is_protocol_error : forall g c fh body pr,
  c_status c = Connected -> c_version c <> VUndet -> fits c body = true ->
  (fh / 16 = 1 \/ fh / 16 = 2) -> can_receive g c (fh / 16) = true ->
  err_outcome c E_PROTOCOL (process_recv_packet g c fh body pr).
Proof. exact established_is_protocol_error. Qed.
Print Assumptions C17_established_is_protocol_error.

(* an undetermined server: any first frame other than a CONNECT of level 4 or 5 is an error and
   changes nothing *)
Theorem C17_undetermined_rejects : forall g c fh body pr,
  c_version c = VUndet -> fits c body = true -> ~ (exists v, good_first fh body v) ->
  exists e, process_recv_packet g c fh body pr = Ok (c, [EError e]).
Proof. exact undetermined_rejects. Qed.
Print Assumptions C17_undetermined_rejects.

(* ... and a good CONNECT makes it EQUAL (state and events) to a server created with that version,
   hence it produces the same events for every continuation of any length *)
Theorem C17_undetermined_equiv : forall g v bytes pr hdr body pb' rest h,
  feed pb_init bytes = (FComplete hdr body, pb', rest) ->
  g_role g <> RClient ->
  fits (conn_new g VUndet) body = true ->
  good_first (hd 0 hdr) body v ->
  run_events g (conn_new g VUndet) (ORecv bytes pr :: h) = run_events g (conn_new g v) (ORecv bytes pr :: h).
Proof. exact undetermined_equiv. Qed.
Print Assumptions C17_undetermined_equiv.

(* THE PAIR: the receive gate is dual to the send gate (Conn/GateDual.v).  Whatever an endpoint in the client role passes
   to the transport, the receive gate of a server-role (or any-role) endpoint of the same protocol version lets through,
   and vice versa — two library endpoints never report a protocol error about each other because of the KIND of packet
   the other one sent; the run-time receive test accepts every kind the rule table lets the peer originate *)
Theorem C17_rule_is_can_receive : forall g c t,
  c_version c <> VUndet -> may_receive (g_role g) (c_version c) t = true -> can_receive g c t = true.
Proof. exact rule_is_can_receive. Qed.
Print Assumptions C17_rule_is_can_receive.

Theorem C17_sent_passes_peer_gate : forall gs gr cs cr p,
  pkt_wf p = true -> opposite (g_role gs) (g_role gr) -> c_version cr = c_version cs -> c_version cs <> VUndet ->
  match do_send gs cs p with
  | Ok (_, e) => sends e <> [] -> can_receive gr cr (k_type p) = true
  | Panic _ => True
  end.
Proof. exact sent_passes_peer_gate. Qed.
Print Assumptions C17_sent_passes_peer_gate.

(* non-vacuity: a v3.1.1 client that receives PINGREQ (type 12); a connected client that receives
   a second CONNACK *)
Example C17_nonvacuous :
  let g := mkCfg RClient 65535 2 in
  let c := set_status (conn_new g V311) Connected in
  may_receive RClient V311 12 = false /\
  process_recv_packet g c 192 [] (PROk (pkt0 12 V311)) = Ok (c, [EError E_PROTOCOL]) /\
  process_recv_packet g c 32 [0; 0] (PROk (pkt0 2 V311)) = Ok (c, [EClose; EError E_PROTOCOL]).
Proof. vm_compute. repeat split. Qed.

(* the duality theorem is not vacuous: a connected v5.0 client sends PINGREQ (it is passed to the transport), and a
   server lets kind 12 through its receive gate; a server sending PINGREQ is refused at its own send gate *)
Example C17_dual_nonvacuous :
  let gs := mkCfg RClient 65535 2 in
  let gr := mkCfg RServer 65535 2 in
  let cs := set_status (conn_new gs V50) Connected in
  let cr := set_status (conn_new gr V50) Connected in
  let p := pkt0 12 V50 in
  pkt_wf p = true /\ opposite (g_role gs) (g_role gr) /\
  match do_send gs cs p with Ok (_, e) => sends e = [p] | Panic _ => False end /\
  can_receive gr cr 12 = true /\
  match do_send gr cr p with Ok (_, e) => sends e = [] | Panic _ => False end.
Proof. vm_compute. repeat split; try reflexivity. left. split; [reflexivity|discriminate]. Qed.
