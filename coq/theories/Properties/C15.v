(* C15 — keep-alive timer requests are consistent and complete.  Statements only; proofs are in
   Conn/Timers.v, Conn/RearmInv.v, Conn/RearmInv2.v and Conn/Expiry.v.  Nothing else may be added to this file. *)
From MQ Require Import Base.Prelude Conn.Types Conn.ConnRecord Conn.Step Conn.Run Corr.ConnTrace Conn.Timers Conn.RearmInv Conn.RearmInv2 Conn.Expiry Conn.PairQos Conn.PairPing.

(* For EVERY state and API call: replaying the timer requests of the returned event list over the
   connection's timer flags before the call (after clearing the flag of a timer whose expiry is
   being reported) yields exactly the flags after the call — and the replay never meets a cancel
   request for a timer that is not armed (trackb would answer None).  So the requests describe a
   consistent timer and the connection's own view of it. *)
Theorem C15_timers_track_step : forall g c o,
  match step g c o with
  | Ok (c', evs, _) => trackb (expire (flags c) o) evs = Some (flags c')
  | Panic _ => True
  end.
Proof. exact timers_track_step. Qed.
Print Assumptions C15_timers_track_step.

(* lifted to every history of any length *)
Theorem C15_timers_track_history : forall g ops c,
  match run_state g c ops with
  | Some c' =>
      exists steps, True /\ length steps = length ops /\
      fold_left (fun (f : option flags3) (oe : op * list event) =>
                   match f with Some f0 => trackb (expire f0 (fst oe)) (snd oe) | None => None end)
                steps (Some (flags c)) = Some (flags c')
  | None => True
  end.
Proof. exact timers_track_history. Qed.
Print Assumptions C15_timers_track_history.

(* after the transport is reported closed, and after a DISCONNECT is requested for sending, no timer
   is armed *)
Theorem C15_closed_disarms : forall c c' e, do_closed c = Ok (c', e) -> flags c' = (false, false, false).
Proof. exact do_closed_disarms. Qed.
Print Assumptions C15_closed_disarms.

Theorem C15_disconnect_disarms : forall c p c' e,
  send_disconnect c p = Ok (c', e) -> existsb is_send e = true -> flags c' = (false, false, false).
Proof. exact send_disconnect_disarms. Qed.
Print Assumptions C15_disconnect_disarms.

(* the interval by priority (override, Server Keep Alive, CONNECT keep-alive; 0 disables) *)
Theorem C15_post_process_spec : forall c,
  snd (send_post_process c) =
    if c_is_client c && (0 <? pick_interval c) then [ETimerReset TPingreqSend (pick_interval c)] else [].
Proof. exact post_process_spec. Qed.
Print Assumptions C15_post_process_spec.

(* the server's receive timeout is 1.5 x the keep-alive of the CONNECT just received (0 disables) *)
Theorem C15_connect_sets_timeout : forall c v p c',
  connect_recv_state c v p = Ok c' -> c_pingreq_recv_to c' = k_keep_alive p * 1000 * 3 / 2.
Proof. exact connect_sets_timeout. Qed.
Print Assumptions C15_connect_sets_timeout.

Theorem C15_refresh_spec : forall c,
  snd (refresh_pingreq_recv c) =
    if negb (c_pingreq_recv_to c =? 0) then [ETimerReset TPingreqRecv (c_pingreq_recv_to c)] else [].
Proof. exact refresh_spec. Qed.
Print Assumptions C15_refresh_spec.

(* "a client re-arms the PINGREQ timer after every packet it sends, with the interval chosen by
   priority" as ONE statement about EVERY call of the API, every state, every input — user sends of
   every kind, automatic responses, the timer's PINGREQ, retransmissions on resume, alias-rewritten
   publishes: in the event list of the call, after the LAST packet requested for sending there is a
   reset of the PINGREQ-send timer with the interval of the state the call returns ([pick_interval]:
   application override, then Server Keep Alive, then CONNECT keep-alive) — unless the call also
   requests a close (DISCONNECT sent, refusal, error), the object is not a client, or the interval is 0.
   [rearmed cl ms e]: no send in e, or a close in e, or not (cl and 0 < ms), or a
   reset(PingreqSend, ms) among the events after the last send. *)
Theorem C15_step_rearms : forall g c o,
  match step g c o with
  | Ok (c', evs, _) => rearmed (c_is_client c') (pick_interval c') evs = true
  | Panic _ => True
  end.
Proof. exact step_rearms. Qed.
Print Assumptions C15_step_rearms.

(* WHAT AN EXPIRY DOES, every state (Conn/Expiry.v).  PINGREQ-send timer on an established connection: a PINGREQ
   is requested and, when a response timeout is configured, the PINGRESP timer is armed with it. *)
Theorem C15_pingreq_send_expiry : forall c,
  status_eqb (c_status c) Connected = true -> c_version c <> VUndet ->
  (c_version c = V50 -> 2 <= c_mps_send c) ->
  match do_timer c TPingreqSend with
  | Ok (c', e) =>
      In (ESend (pingreq_pkt (c_version c)) None) e /\
      (c_pingresp_recv_to c <> 0 -> In (ETimerReset TPingrespRecv (c_pingresp_recv_to c)) e /\ c_t_resp c' = true)
  | Panic _ => False
  end.
Proof. exact pingreq_send_expiry. Qed.
Print Assumptions C15_pingreq_send_expiry.

(* PINGREQ-receive (server) and PINGRESP-receive (client) timers: the connection is given up — v3.1.1: exactly a
   close request; v5.0 while established: DISCONNECT 'Keep Alive timeout' (0x8D, if it fits the peer's Maximum
   Packet Size), a close request, status Disconnected *)
Theorem C15_keepalive_expiry_v311 : forall c k, k <> TPingreqSend -> c_version c = V311 ->
  match do_timer c k with Ok (c', e) => e = [EClose] | Panic _ => False end.
Proof. exact keepalive_expiry_v311. Qed.
Print Assumptions C15_keepalive_expiry_v311.
Theorem C15_keepalive_expiry_v5 : forall c k, k <> TPingreqSend -> c_version c = V50 -> status_eqb (c_status c) Connected = true ->
  match do_timer c k with
  | Ok (c', e) => In EClose e /\ c_status c' = Disconnected /\
                  (size_ok c (disconnect_v5 141) = true -> In (ESend (disconnect_v5 141) None) e)
  | Panic _ => False
  end.
Proof. exact keepalive_expiry_v5. Qed.
Print Assumptions C15_keepalive_expiry_v5.

(* THE SERVER-SIDE TIMER IS RE-ARMED BY EVERY ACCEPTED PACKET: for every packet kind other than CONNACK, PINGRESP
   and DISCONNECT (which ends the connection), every state, both versions: when the received packet is notified
   and a receive timeout is in force (1.5 x the client's keep-alive), the call requests a reset of the
   PINGREQ-receive timer with that timeout and the timer is armed afterwards *)
Theorem C15_accepted_packet_rearms : forall g c v t pr,
  t <> 2 -> t <> 13 -> t <> 14 -> (t = 1 -> exists p, pr = PROk p) ->
  match dispatch_recv g c v t pr with
  | Ok (c', e) => notifies e <> [] -> c_pingreq_recv_to c' <> 0 ->
                  In (ETimerReset TPingreqRecv (c_pingreq_recv_to c')) e /\ c_t_recv c' = true
  | Panic _ => True
  end.
Proof. exact accepted_packet_rearms. Qed.
Print Assumptions C15_accepted_packet_rearms.

(* [rearmed] is not vacuous: it rejects a client send that is not followed by the reset, and a reset
   with the wrong interval; it accepts the reset after the last send *)
(* THE PAIR (Conn/PairPing.v): one keep-alive round between a client endpoint and a server endpoint of either version.
   The client's PINGREQ timer fires ([do_timer] is what [step … (OTimer …)] runs); the PINGREQ it requests, handed to the
   server, is answered with PINGRESP by the server itself, which re-arms its receive watchdog; the PINGRESP, handed to the
   client, cancels the response timer the client armed.  No call reports an error or asks to close, and no response
   timer is left armed. *)
Theorem C15_keep_alive_round : forall gs gr cs cr v,
  v <> VUndet -> c_version cs = v -> c_version cr = v ->
  status_eqb (c_status cs) Connected = true -> status_eqb (c_status cr) Connected = true -> fits2 cs -> fits2 cr ->
  role_server_ok gr = true -> c_is_client cr = false -> c_auto_ping cr = true ->
  exists cs1 e1 cr1 e2 cs2 e3,
    do_timer cs TPingreqSend = Ok (cs1, e1) /\ sends e1 = [pingreq_pkt v] /\ errors e1 = [] /\ closes e1 = false /\
    (c_pingresp_recv_to cs <> 0 -> c_t_resp cs1 = true /\ In (ETimerReset TPingrespRecv (c_pingresp_recv_to cs)) e1) /\
    deliver gr cr (pingreq_pkt v) = Ok (cr1, e2) /\ sends e2 = [pingresp_pkt v] /\ errors e2 = [] /\ closes e2 = false /\
    (c_pingreq_recv_to cr <> 0 -> c_t_recv cr1 = true /\ In (ETimerReset TPingreqRecv (c_pingreq_recv_to cr)) e2) /\
    deliver gs cs1 (pingresp_pkt v) = Ok (cs2, e3) /\ sends e3 = [] /\ errors e3 = [] /\ closes e3 = false /\
    c_t_resp cs2 = false /\ (c_pingresp_recv_to cs <> 0 -> In (ETimerCancel TPingrespRecv) e3).
Proof. exact keep_alive_round. Qed.
Print Assumptions C15_keep_alive_round.

(* the round is not vacuous: keep-alive 10 s, PINGRESP timeout 500 ms at the client, 15 s watchdog at the server *)
Example C15_round_nonvacuous :
  let gs := mkCfg RClient 65535 2 in
  let gr := mkCfg RServer 65535 2 in
  let cs := set_pingresp_recv_to (set_keep_alive_ms (set_is_client (set_status (conn_new gs V50) Connected) true) 10000) 500 in
  let cr := set_auto_ping (set_pingreq_recv_to (set_status (conn_new gr V50) Connected) 15000) true in
  status_eqb (c_status cs) Connected = true /\ status_eqb (c_status cr) Connected = true /\ fits2 cs /\ fits2 cr /\
  role_server_ok gr = true /\ c_is_client cr = false /\ c_auto_ping cr = true /\ c_pingresp_recv_to cs <> 0 /\ c_pingreq_recv_to cr <> 0 /\
  match do_timer cs TPingreqSend with
  | Ok (cs1, e1) => c_t_resp cs1 = true /\
      match deliver gr cr (pingreq_pkt V50) with
      | Ok (cr1, e2) => c_t_recv cr1 = true /\ sends e2 = [pingresp_pkt V50] /\
          match deliver gs cs1 (pingresp_pkt V50) with
          | Ok (cs2, e3) => c_t_resp cs2 = false /\ In (ETimerCancel TPingrespRecv) e3
          | Panic _ => False end
      | Panic _ => False end
  | Panic _ => False
  end.
Proof. vm_compute. repeat split; try reflexivity; try discriminate; try (intro H; discriminate H); auto. Qed.

Example C15_rearmed_nonvacuous :
  let p := pingreq_pkt V311 in
  rearmed true 10000 [ESend p None] = false /\
  rearmed true 10000 [ESend p None; ETimerReset TPingreqSend 5000] = false /\
  rearmed true 10000 [ETimerReset TPingreqSend 10000; ESend p None] = false /\
  rearmed true 10000 [ESend p None; ETimerReset TPingrespRecv 500; ETimerReset TPingreqSend 10000] = true /\
  rearmed true 10000 [ESend p None; EClose] = true /\ rearmed false 10000 [ESend p None] = true.
Proof. vm_compute. repeat split; reflexivity. Qed.

(* non-vacuity: a client with keep-alive 10 s sends a PINGREQ with a response timeout configured;
   and the replay does reject a cancel for an unarmed timer *)
Example C15_nonvacuous :
  let g := mkCfg RClient 65535 2 in
  let c := set_pingresp_recv_to (set_keep_alive_ms (set_is_client (set_status (conn_new g V311) Connected) true) 10000) 500 in
  match step g c (OSend (pingreq_pkt V311)) with Ok (_, e, _) => e | Panic _ => [] end
    = [ESend (pingreq_pkt V311) None; ETimerReset TPingrespRecv 500; ETimerReset TPingreqSend 10000]
  /\ trackb (false, false, false) [ETimerCancel TPingreqSend] = None.
Proof. vm_compute. split; reflexivity. Qed.
