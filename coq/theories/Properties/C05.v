(* C05 — No peer-controlled input can panic or wedge a connection.  Statements only; proofs in
   Conn/Session.v, Conn/RecvGate.v, Framing/FramingProofs.v, Conn/TasBounds.v, Conn/NoPanic.v (on top of the
   ownership invariant of Conn/Own*.v).  Nothing else may be added. *)
From MQ Require Import Base.Prelude Framing.Framing Conn.Types Conn.ConnRecord Conn.Step Corr.ConnTrace
                       Conn.RecvGate Conn.Session Conn.Run Conn.TopicAlias Conn.Own Conn.OwnFrame Conn.OwnStep Conn.TasBounds Conn.NoPanic Conn.Witness.

(* every state: after the transport is reported closed the object is Disconnected with an empty
   frame builder ... *)
Theorem C05_closed_is_reusable : forall c c' e,
  do_closed c = Ok (c', e) -> c_status c' = Disconnected /\ c_pb c' = pb_init.
Proof. exact closed_is_reusable. Qed.
Print Assumptions C05_closed_is_reusable.

(* ... and in that state a client's CONNECT is accepted (passed to the transport) *)
Theorem C05_connect_after_close_accepted : forall g c p,
  c_status c = Disconnected -> k_type p = T_CONNECT -> c_version c = k_ver p -> g_role g <> RServer ->
  k_ver p = V311 \/ (k_ver p = V50 /\ k_size p <= c_mps_send c) ->
  match do_send g c p with Ok (_, e) => In p (sends e) | Panic _ => True end.
Proof. exact connect_after_close_accepted. Qed.
Print Assumptions C05_connect_after_close_accepted.

(* a frame that is refused is always reported: the outcome of every error path carries the error
   event, delivers nothing and keeps the session state *)
Theorem C05_error_reported : forall c v e, err_outcome c e (handle_error c v e).
Proof. exact handle_error_outcome. Qed.
Print Assumptions C05_error_reported.

(* NO CALL OF THE MODEL PANICS.  The model's Panic outcomes mark the unwrap / assert / unreachable sites of
   core.rs (store.add(..).unwrap() on a duplicate identifier; release of an identifier that is not in use;
   the assertions of the topic-alias tables: empty topic, alias outside 1..=max, get_lru_alias on a table of
   size 0; assert!(val != 0) on a received Receive Maximum / Maximum Packet Size; "protocol version should
   be set").  [J g c]: the ownership invariant OWN (Conn/Own.v), the bounds of the send-side alias table TAS
   (Conn/TasBounds.v) and a determined version.  From EVERY state with J, EVERY call — whatever bytes the peer
   sends, whatever the timers do — returns normally and re-establishes J, under the contract [np_contract]:
   the application hands send() identifiers it holds, does not release a stored packet's identifier, restores
   packets of this version with identifiers awaited nowhere (own_op_ok); and what the PARSER guarantees
   about an accepted packet: Receive Maximum / Maximum Packet Size are not 0 and Topic Alias Maximum is a
   two-byte integer (np_op_ok, tam_op_ok).  Nothing is assumed about the sequence of received packets. *)
Theorem C05_step_no_panic : forall g c o,
  J g c -> np_contract c o ->
  match step g c o with Ok (c', _, _) => J g c' | Panic _ => False end.
Proof. exact step_keeps_J. Qed.
Print Assumptions C05_step_no_panic.

Theorem C05_history_no_panic : forall g ops c,
  J g c -> np_history_ok g c ops ->
  match run_state g c ops with Some c' => J g c' | None => False end.
Proof. exact history_no_panic. Qed.
Print Assumptions C05_history_no_panic.

Theorem C05_fresh_history_no_panic : forall g v ops,
  1 <= g_idmax g -> v <> VUndet -> np_history_ok g (conn_new g v) ops ->
  match run_state g (conn_new g v) ops with Some c' => J g c' | None => False end.
Proof. exact fresh_history_no_panic. Qed.
Print Assumptions C05_fresh_history_no_panic.

(* the alias-table bounds alone are kept by every call (no application contract needed) *)
Theorem C05_step_keeps_alias_bounds : forall g c o, tam_op_ok o -> TAS c ->
  match step g c o with Ok (c', _, _) => TAS c' | Panic _ => True end.
Proof. exact step_keeps_TAS. Qed.
Print Assumptions C05_step_keeps_alias_bounds.

(* C05_partial: the theorems above are about the MODEL (determined version; an endpoint created as
   Undetermined panics in the model only when a timer fires before its first CONNECT, which the contract
   "only armed timers fire" excludes).  For the implementation, "no call panics" is decided by running every
   call under catch_unwind in a debug build (monitor mon_c05: a panic — of the call or of a getter read
   after it —, or a received frame that is neither delivered, answered nor reported, is a violation) and by
   the correspondence with the model; totality and termination of the model functions are by construction
   (structural recursion accepted by the kernel).  Known finding F-05c is reported as KNOWN-FINDING. *)

(* "every received frame is delivered, answered or reported" is FALSE of the faithful model and of the code for one
   class of input (known finding F-05c): a retransmitted QoS 2 PUBLISH whose identifier is in the handled set,
   arriving while the connection is not established, produces no event at all *)
Theorem C05_every_frame_has_an_effect_refuted :
  exists c, run_state w05c_g (conn_new w05c_g V311) [OSetAutoPub true; ORestoreQos2 [1]] = Some c /\
            mem (k_pid w05c_pub) (c_qos2 c) = true /\
            exists c', step w05c_g c (ORecv [52;5;0;1;116;0;1] (PROk w05c_pub)) = Ok (c', [], [0]).
Proof. exact w05c_refutes. Qed.
Print Assumptions C05_every_frame_has_an_effect_refuted.

Example C05_nonvacuous :
  let g := mkCfg RClient 65535 2 in
  let c := set_status (conn_new g V311) Connected in
  match do_closed c with Ok (c', _) => c_status c' = Disconnected | Panic _ => False end.
Proof. vm_compute. reflexivity. Qed.

(* the no-panic history theorem's premises are satisfiable on a history with stored packets, a resume that
   drops one of them as oversize, an acknowledgement for nothing in flight and a timer *)
Example C05_no_panic_nonvacuous :
  let g := mkCfg RClient 65535 2 in
  let cn := mkPkt 1 V50 0 0 false false [] None 0 0 20 false 0 false 10 None None None (Some 100) None in
  let ca1 := mkPkt 2 V50 0 0 false false [] None 0 0 5 true 0 false 0 (Some 3) None None None None in
  let ca2 := mkPkt 2 V50 0 0 false false [] None 0 0 10 true 0 true 0 None None (Some 50) None None in
  let pb1 := mkPkt 3 V50 1 1 false false [116] None 0 100 107 false 0 false 0 None None None None None in
  let pb2 := mkPkt 3 V50 2 2 false false [116] None 0 0 7 false 0 false 0 None None None None None in
  let ack9 := mkPkt 4 V50 9 0 false false [] None 0 0 4 false 0 false 0 None None None None None in
  let ops := [OSend cn; ORecv [32;3;0;0;0] (PROk ca1); OSetAutoMap true; OAcquire; OSend pb1; OAcquire; OSend pb2;
              ORecv [64;2;0;9] (PROk ack9); OTimer TPingreqSend; OClosed; OSend cn; ORecv [32;3;1;0;0] (PROk ca2)] in
  np_history_ok g (conn_new g V50) ops /\
  match run_state g (conn_new g V50) ops with Some c' => map k_pid (c_store c') = [2] | None => False end.
Proof. vm_compute. repeat split; try reflexivity; try discriminate; intros; try discriminate. Qed.
