(* C05 — No peer-controlled input can panic or wedge a connection.  Statements only; proofs in
   Conn/Session.v, Conn/RecvGate.v, Framing/FramingProofs.v.  Nothing else may be added. *)
From MQ Require Import Base.Prelude Framing.Framing Conn.Types Conn.ConnRecord Conn.Step Corr.ConnTrace
                       Conn.RecvGate Conn.Session.

(* every state: after the transport is reported closed the object is Disconnected with an empty
   frame builder ... *)
Theorem C05_closed_is_reusable : forall c c' e,
  do_closed c = Ok (c', e) -> c_status c' = Disconnected /\ c_pb c' = pb_init.
Proof. exact closed_is_reusable. Qed.
Print Assumptions C05_closed_is_reusable.

(* ... and in that state a client's CONNECT is accepted (passed to the transport) *)
Theorem C05_connect_after_close_accepted : forall g c p,
  c_status c = Disconnected -> k_type p = T_CONNECT -> c_version c = k_ver p -> g_role g <> RServer ->
  k_ver p = V311 \/ (k_ver p = V50 /\ k_size p <= c_mps_send c) ->
  match do_send g c p with Ok (_, e) => In p (sends e) | Panic _ => True end.
Proof. exact connect_after_close_accepted. Qed.
Print Assumptions C05_connect_after_close_accepted.

(* a frame that is refused is always reported: the outcome of every error path carries the error
   event, delivers nothing and keeps the session state *)
Theorem C05_error_reported : forall c v e, err_outcome c e (handle_error c v e).
Proof. exact handle_error_outcome. Qed.
Print Assumptions C05_error_reported.

(* C05_partial: "no call panics" for all histories is decided by running every call of the
   implementation under catch_unwind in debug and release builds (monitor mon_c05: a panic, or a
   received frame that is neither delivered, answered nor reported, is a violation) and by the
   correspondence with the model, whose Panic outcomes mark exactly the unwrap/assert sites of
   core.rs; totality and termination of the model functions are by construction (structural
   recursion accepted by the kernel).  Known finding F-05c is reported as KNOWN-FINDING. *)

Example C05_nonvacuous :
  let g := mkCfg RClient 65535 2 in
  let c := set_status (conn_new g V311) Connected in
  match do_closed c with Ok (c', _) => c_status c' = Disconnected | Panic _ => False end.
Proof. vm_compute. reflexivity. Qed.
