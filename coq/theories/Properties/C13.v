(* C13 — Topic aliases always resolve to the intended topic at the receiver.  Statements only;
   proofs in Conn/Session.v, Conn/AliasTable.v, Conn/AliasInv.v and Conn/AliasHist.v.  Nothing else may be added to this file. *)
From MQ Require Import Base.Prelude Conn.Types Conn.TopicAlias Conn.ConnRecord Conn.Step Corr.ConnTrace Conn.Run Conn.Session Conn.AliasTable Conn.AliasInv Conn.AliasHist Conn.PairQos Conn.PairQos5 Conn.AliasPair.

(* receive side, every state: an aliased PUBLISH with an empty topic is delivered with exactly the
   topic bound to that alias on this connection, one with a topic is delivered as it is, and
   otherwise it is rejected as Topic Alias invalid *)
Theorem C13_recv_alias_sound : forall g c p,
  match resolve_recv_alias g c p with
  | Ok (c', q, false, _) =>
      (k_topic p <> [] -> q = p) /\
      (k_topic p = [] -> exists a r t, k_alias p = Some a /\ c_ta_recv c = Some r /\ tar_get r a = Some t /\ k_topic q = t)
  | Ok (_, _, true, e) => In (EError E_TOPIC_ALIAS_INVALID) e
  | Panic _ => True
  end.
Proof. exact recv_alias_sound. Qed.
Print Assumptions C13_recv_alias_sound.

(* bindings do not survive the connection: both tables are dropped by notify_closed, in every state *)
Theorem C13_closed_clears_aliases : forall c c' e,
  do_closed c = Ok (c', e) -> c_ta_send c' = None /\ c_ta_recv c' = None.
Proof. exact closed_clears_aliases. Qed.
Print Assumptions C13_closed_clears_aliases.

(* what is kept for retransmission carries the full topic, no alias, and DUP *)
Theorem C13_stored_form_topic : forall g p,
  k_alias (set_dup (remove_topic_alias g p) true) = None /\ k_dup (set_dup (remove_topic_alias g p) true) = true /\
  k_topic (set_dup (remove_topic_alias g p) true) = k_topic p.
Proof. exact stored_form_topic. Qed.
Print Assumptions C13_stored_form_topic.

Theorem C13_stored_form_alias : forall g p t,
  k_alias (set_dup (remove_topic_alias_add_topic g p t) true) = None /\
  k_dup (set_dup (remove_topic_alias_add_topic g p t) true) = true /\
  k_topic (set_dup (remove_topic_alias_add_topic g p t) true) = t.
Proof. exact stored_form_alias. Qed.
Print Assumptions C13_stored_form_alias.

(* SEND SIDE.  The receiver is a ghost table G built only from the packets requested for sending on
   this connection ([rx_step]: a PUBLISH with a topic and an alias binds it; [rx_topic]: how a
   conformant receiver resolves a PUBLISH); [agree c G]: the sender's table (with its representation
   invariant) knows no binding that G does not have.  For EVERY state with [agree], every v5.0 PUBLISH
   handed to send() — topic given, alias chosen by the application, by automatic mapping (including
   least-recently-used eviction) or by automatic replacement, stored or not, accepted or refused —
   at most one packet is requested; the receiver resolves it to the topic the application asked for
   (its own topic, or the topic its alias is bound to); its alias is within 1..=Topic Alias Maximum;
   and [agree] holds again with the receiver's table after that packet: a binding enters the sender's
   table only together with the packet that teaches it to the receiver. *)
Theorem C13_send_resolvable : forall g c p G,
  agree c G -> send_spec G p (send_publish_v5 g c p).
Proof. exact send_publish_v5_resolvable. Qed.
Print Assumptions C13_send_resolvable.

(* insert_or_update of the send-side table, every table satisfying the representation invariant: the
   alias is bound to the new topic, every other alias keeps its topic, the invariant is kept (in
   particular the topic -> alias index used by automatic mapping stays consistent) *)
Theorem C13_insert_or_update_spec : forall s t a s',
  tas_inv s -> tas_insert s t a = Ok s' ->
  look s' a = Some t /\ (forall b, b <> a -> look s' b = look s b) /\ ts_max s' = ts_max s /\ tas_inv s'.
Proof. exact tas_insert_spec. Qed.
Print Assumptions C13_insert_or_update_spec.

(* [agree] holds for a fresh object, after notify_closed (with ANY receiver table: bindings do not
   survive the connection, the ghost restarts empty), and when a CONNACK installs a new table *)
Theorem C13_fresh_agree : forall g v G, agree (conn_new g v) G.
Proof. exact fresh_agree. Qed.
Print Assumptions C13_fresh_agree.
Theorem C13_closed_agree : forall c c' e G, do_closed c = Ok (c', e) -> agree c' G.
Proof. exact closed_agree. Qed.
Print Assumptions C13_closed_agree.
Theorem C13_connack_limits_agree : forall c p c' G,
  match k_tam p with Some m => m <= 65535 | None => True end ->
  agree c G -> connack_recv_limits c p = Ok c' -> agree c' G.
Proof. exact connack_recv_limits_agree. Qed.
Print Assumptions C13_connack_limits_agree.

(* OVER HISTORIES.  [Inv c G]: the cover above, and every stored v5.0 PUBLISH has a topic and no alias.
   [res_evs G evs]: every v5.0 PUBLISH requested in evs is resolvable by the receiver when it arrives
   (the receiver's table grows along the list).  EVERY call of the API keeps Inv (with the receiver's
   table after the call's events) and requests only resolvable PUBLISH packets — user sends,
   retransmissions on resume, automatic responses, every received packet, timers, close.  [op_ok]:
   the Topic Alias Maximum a parsed CONNECT/CONNACK reports is a two-byte integer, packets given to
   restore_packets have the stored shape, a packet that is not a v5.0 PUBLISH carries no Topic Alias. *)
Theorem C13_step_alias_inv : forall g c o G,
  Inv c G -> op_ok o ->
  match step g c o with
  | Ok (c', evs, _) => Inv c' (ghost_after G evs) /\ res_evs G evs
  | Panic _ => True
  end.
Proof. exact step_alias_inv. Qed.
Print Assumptions C13_step_alias_inv.

(* every history of any length, from every state with Inv; the receiver's table is dropped at
   notify_closed like the sender's (bindings do not survive the connection) *)
Theorem C13_every_history_resolvable : forall g ops c G,
  Inv c G -> Forall op_ok ops -> hist_resolvable g c G ops.
Proof. exact every_history_resolvable. Qed.
Print Assumptions C13_every_history_resolvable.

(* in particular every history of a freshly constructed object, the receiver starting empty *)
Theorem C13_fresh_history_resolvable : forall g v ops,
  Forall op_ok ops -> hist_resolvable g (conn_new g v) [] ops.
Proof. exact fresh_history_resolvable. Qed.
Print Assumptions C13_fresh_history_resolvable.

(* THE PAIR.  The ghost receiver of the theorems above is what a library endpoint does: [tracks r G] — the receive-side
   table r answers like the ghost table G for every alias within the announced maximum.  One PUBLISH (any QoS, as far
   as alias resolution goes): whatever the ghost resolves it to, the library's receiver resolves it to, and [tracks]
   holds again after it *)
Theorem C13_receiver_implements_ghost : forall g c r G q t,
  c_ta_recv c = Some r -> tracks r G ->
  (match k_alias q with Some a => 1 <= a <= tr_max r | None => True end) ->
  rx_topic (rx_step G q) q = Some t ->
  exists c' q' r', resolve_recv_alias g c q = Ok (c', q', false, []) /\ k_topic q' = t /\
                   c_ta_recv c' = Some r' /\ tr_max r' = tr_max r /\ tracks r' (rx_step G q).
Proof. exact receiver_implements_ghost. Qed.
Print Assumptions C13_receiver_implements_ghost.

(* a whole stream of PUBLISH packets delivered in order: the topics the library delivers are the ghost's, one by one *)
Theorem C13_receiver_implements_ghost_stream : forall g qs c r G ts,
  c_ta_recv c = Some r -> tracks r G -> aliases_in_range (tr_max r) qs -> ghost_topics G qs = Some ts ->
  exists c', recv_topics g c qs = Some (c', ts).
Proof. exact receiver_implements_ghost_stream. Qed.
Print Assumptions C13_receiver_implements_ghost_stream.

(* sender and receiver together: whatever PUBLISH the sending application hands to send() (alias chosen by it, by
   automatic mapping or replacement, or none), if a packet is requested then the library's receiver delivers it with the
   topic the application asked for, and the sender's table, the receiver's table and the ghost are related as before *)
Theorem C13_pair_alias_step : forall gs gr cs cr r G p,
  agree cs G -> c_ta_recv cr = Some r -> tracks r G ->
  match send_publish_v5 gs cs p with
  | Ok (cs', e) =>
      (forall s, c_ta_send cs' = Some s -> ts_max s <= tr_max r) ->
      match sends e with
      | [] => agree cs' G
      | [q] => exists cr' q' r', resolve_recv_alias gr cr q = Ok (cr', q', false, []) /\ intended G p (k_topic q') /\
                                 agree cs' (rx_step G q) /\ c_ta_recv cr' = Some r' /\ tr_max r' = tr_max r /\ tracks r' (rx_step G q)
      | _ => False
      end
  | Panic _ => True
  end.
Proof. exact alias_pair_step. Qed.
Print Assumptions C13_pair_alias_step.

(* the whole receive path of a QoS 0 PUBLISH: notified once, with that topic, no error *)
Theorem C13_deliver_qos0_with_alias : forall g c r G q t,
  c_version c = V50 -> c_ta_recv c = Some r -> tracks r G ->
  (match k_alias q with Some a => 1 <= a <= tr_max r | None => True end) ->
  k_type q = T_PUBLISH -> k_qos q = 0 -> rx_topic (rx_step G q) q = Some t ->
  exists c' e q' r', deliver g c q = Ok (c', e) /\ notifies e = [q'] /\ errors e = [] /\ sends e = [] /\ k_topic q' = t /\
                     c_ta_recv c' = Some r' /\ tr_max r' = tr_max r /\ tracks r' (rx_step G q).
Proof. exact deliver_qos0_with_alias. Qed.
Print Assumptions C13_deliver_qos0_with_alias.

(* ... and of a QoS 1 / QoS 2 PUBLISH with automatic responses: notified once with that topic, the acknowledgement requested,
   the flow-control and handled sets updated as for a PUBLISH without alias *)
Theorem C13_deliver_qos1_with_alias : forall g c r G q t,
  ready5 c -> c_auto_pub c = true -> c_ta_recv c = Some r -> tracks r G ->
  (match k_alias q with Some a => 1 <= a <= tr_max r | None => True end) ->
  k_type q = T_PUBLISH -> k_qos q = 1 -> recv_quota_left c -> ack_fits g c -> rx_topic (rx_step G q) q = Some t ->
  exists c' e q' r', deliver g c q = Ok (c', e) /\ notifies e = [q'] /\ sends e = [ack_pkt g T_PUBACK V50 (k_pid q) None] /\ errors e = [] /\
                     k_topic q' = t /\ c_ta_recv c' = Some r' /\ tr_max r' = tr_max r /\ tracks r' (rx_step G q) /\
                     c_publish_recv c' = del (k_pid q) (ins (k_pid q) (c_publish_recv c)).
Proof. exact deliver_qos1_with_alias. Qed.
Print Assumptions C13_deliver_qos1_with_alias.

Theorem C13_deliver_qos2_with_alias : forall g c r G q t,
  ready5 c -> c_auto_pub c = true -> c_ta_recv c = Some r -> tracks r G ->
  (match k_alias q with Some a => 1 <= a <= tr_max r | None => True end) ->
  k_type q = T_PUBLISH -> k_qos q = 2 -> mem (k_pid q) (c_qos2 c) = false -> recv_quota_left c -> ack_fits g c ->
  rx_topic (rx_step G q) q = Some t ->
  exists c' e q' r', deliver g c q = Ok (c', e) /\ notifies e = [q'] /\ sends e = [ack_pkt g T_PUBREC V50 (k_pid q) None] /\ errors e = [] /\
                     k_topic q' = t /\ c_ta_recv c' = Some r' /\ tr_max r' = tr_max r /\ tracks r' (rx_step G q) /\
                     c_qos2 c' = ins (k_pid q) (c_qos2 c) /\ c_publish_recv c' = ins (k_pid q) (c_publish_recv c).
Proof. exact deliver_qos2_with_alias. Qed.
Print Assumptions C13_deliver_qos2_with_alias.

(* C13_partial: nothing of the property is left to the monitor alone on the MODEL side; the
   implementation is judged by mon_c13 (an independent receiver-side table replayed over the packets
   it actually requested) and tied to the model by the correspondence.  [res_evs] states resolvability;
   that the resolved topic is the one the application asked for is C13_send_resolvable (per call). *)

Example C13_nonvacuous :
  let g := mkCfg RServer 65535 2 in
  let c := set_ta_recv (set_status (conn_new g V50) Connected) (Some (mkTar 5 [(2, [116; 49])])) in
  let p := mkPkt 3 V50 0 0 false false [] (Some 2) 0 0 8 false 0 false 0 None None None None None in
  match resolve_recv_alias g c p with
  | Ok (_, q, false, _) => k_topic q = [116; 49]
  | _ => False
  end.
Proof. vm_compute. reflexivity. Qed.

(* the send-side theorem's premise is satisfiable and its conclusion is not trivial: automatic mapping
   on a connected client binds alias 1 to the topic by sending topic + alias, and the receiver learns it *)
Example C13_send_nonvacuous :
  let g := mkCfg RClient 65535 2 in
  match tas_new 2 with
  | Ok s =>
    let c := set_auto_map (set_ta_send (set_status (conn_new g V50) Connected) (Some s)) true in
    let p := mkPkt 3 V50 0 0 false false [116; 47; 49] None 0 0 12 false 0 false 0 None None None None None in
    match send_publish_v5 g c p with
    | Ok (c', e) => match sends e with
                    | [q] => k_alias q = Some 1 /\ rx_step [] q = [(1, [116; 47; 49])] /\ rx_topic (rx_step [] q) q = Some [116; 47; 49]
                    | _ => False end
    | Panic _ => False
    end
  | Panic _ => False
  end.
Proof. vm_compute. repeat split; reflexivity. Qed.

(* the pair theorems are not vacuous: after a handshake announcing Topic Alias Maximum 4 towards the server, seven
   QoS 0 publications — two aliases bound, used with an empty topic, alias 1 rebound — are requested by the client and
   delivered by the server with exactly the intended topics; the limits of the two tables are equal *)
Example C13_pair_nonvacuous :
  let gs := mkCfg RClient 65535 2 in
  let gr := mkCfg RServer 65535 2 in
  let cn := mkPkt 1 V50 0 0 false false [] None 0 0 24 false 0 true 0 (Some 5) None None None None in
  let ca := mkPkt 2 V50 0 0 false false [] None 0 0 11 true 0 false 0 (Some 4) None None None None in
  let ops_s := [OSend cn; ORecv [32;9;0;0;6;33;0;2;39;0;0;0;50] (PROk ca)] in
  let ops_r := [ORecv [16;13;0;4;77;81;84;84;5;2;0;0;0;0;0] (PROk cn); OSend ca] in
  let pa := fun top al pay => mkPkt 3 V50 0 0 false false top al (match al with Some _ => 3 | None => 0 end) pay 20 false 0 false 0 None None None None None in
  let ps := [pa [116] (Some 1) 0; pa [] (Some 1) 1; pa [117;118] (Some 2) 2; pa [] (Some 2) 3; pa [119] (Some 1) 4; pa [] (Some 1) 5; pa [120] None 6] in
  match run_state gs (conn_new gs V50) ops_s, run_state gr (conn_new gr V50) ops_r with
  | Some cs, Some cr =>
     let fix go (c : conn) (l : list pkt) (acc : list pkt) := match l with [] => Some (c, acc) | p :: tl =>
        match send_publish_v5 gs c p with Ok (c', e) => go c' tl (acc ++ sends e) | Panic _ => None end end in
     match go cs ps [] with
     | Some (cs', qs) =>
         length qs = 7%nat /\ option_map ts_max (c_ta_send cs) = Some 4 /\ option_map tr_max (c_ta_recv cr) = Some 4 /\
         option_map snd (recv_topics gr cr qs) = Some [[116]; [116]; [117; 118]; [117; 118]; [119]; [119]; [120]] /\
         ghost_topics [] qs = Some [[116]; [116]; [117; 118]; [117; 118]; [119]; [119]; [120]]
     | None => False
     end
  | _, _ => False
  end.
Proof. vm_compute. repeat split; reflexivity. Qed.
