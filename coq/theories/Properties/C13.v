(* C13 — Topic aliases always resolve to the intended topic at the receiver.  Statements only;
   proofs in Conn/Session.v.  Nothing else may be added to this file. *)
From MQ Require Import Base.Prelude Conn.Types Conn.TopicAlias Conn.ConnRecord Conn.Step Corr.ConnTrace Conn.Session.

(* receive side, every state: an aliased PUBLISH with an empty topic is delivered with exactly the
   topic bound to that alias on this connection, one with a topic is delivered as it is, and
   otherwise it is rejected as Topic Alias invalid *)
Theorem C13_recv_alias_sound : forall g c p,
  match resolve_recv_alias g c p with
  | Ok (c', q, false, _) =>
      (k_topic p <> [] -> q = p) /\
      (k_topic p = [] -> exists a r t, k_alias p = Some a /\ c_ta_recv c = Some r /\ tar_get r a = Some t /\ k_topic q = t)
  | Ok (_, _, true, e) => In (EError E_TOPIC_ALIAS_INVALID) e
  | Panic _ => True
  end.
Proof. exact recv_alias_sound. Qed.
Print Assumptions C13_recv_alias_sound.

(* bindings do not survive the connection: both tables are dropped by notify_closed, in every state *)
Theorem C13_closed_clears_aliases : forall c c' e,
  do_closed c = Ok (c', e) -> c_ta_send c' = None /\ c_ta_recv c' = None.
Proof. exact closed_clears_aliases. Qed.
Print Assumptions C13_closed_clears_aliases.

(* what is kept for retransmission carries the full topic, no alias, and DUP *)
Theorem C13_stored_form_topic : forall g p,
  k_alias (set_dup (remove_topic_alias g p) true) = None /\ k_dup (set_dup (remove_topic_alias g p) true) = true /\
  k_topic (set_dup (remove_topic_alias g p) true) = k_topic p.
Proof. exact stored_form_topic. Qed.
Print Assumptions C13_stored_form_topic.

Theorem C13_stored_form_alias : forall g p t,
  k_alias (set_dup (remove_topic_alias_add_topic g p t) true) = None /\
  k_dup (set_dup (remove_topic_alias_add_topic g p t) true) = true /\
  k_topic (set_dup (remove_topic_alias_add_topic g p t) true) = t.
Proof. exact stored_form_alias. Qed.
Print Assumptions C13_stored_form_alias.

(* C13_partial: the send-side statement over histories ("an empty topic is only sent with an alias
   that an earlier PUBLISH sent on this connection bound to that topic") is decided by the monitor
   mon_c13 — an independent receiver-side alias table replayed over the implementation's sent
   packets — and by the correspondence; it is not yet a theorem. *)

Example C13_nonvacuous :
  let g := mkCfg RServer 65535 2 in
  let c := set_ta_recv (set_status (conn_new g V50) Connected) (Some (mkTar 5 [(2, [116; 49])])) in
  let p := mkPkt 3 V50 0 0 false false [] (Some 2) 0 0 8 false 0 false 0 None None None None None in
  match resolve_recv_alias g c p with
  | Ok (_, q, false, _) => k_topic q = [116; 49]
  | _ => False
  end.
Proof. vm_compute. reflexivity. Qed.
