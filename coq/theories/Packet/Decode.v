(* Decoding of the 29 control packets (reference decoder, strict: exactly the forms the
   specifications describe). *)
From MQ Require Import Base.Prelude Packet.Prim Packet.Props Packet.Packets.

Definition obind {A B} (o : option A) (f : A -> option B) : option B := match o with Some x => f x | None => None end.
Notation "'do' x <- o ; f" := (obind o (fun x => f)) (at level 200, x name, o at level 100, f at level 200, right associativity).
Notation "'do' ' ( a , b ) <- o ; f" := (obind o (fun ab => let '(a, b) := ab in f))
  (at level 200, a name, b name, o at level 100, f at level 200, right associativity).

Definition dec_vprops (v : ver) (l : bytes) : option (list prop * bytes) :=
  if is_v5 v then dec_props l else Some ([], l).

(* reason code + properties filling the rest of the body *)
Definition dec_tail (l : bytes) : option tail :=
  match l with
  | [] => Some (mkTail None None)
  | rc :: t =>
    match t with
    | [] => Some (mkTail (Some rc) None)
    | _ => match dec_props t with Some (ps, []) => Some (mkTail (Some rc) (Some ps)) | _ => None end
    end
  end.

Fixpoint dec_entries (fuel : nat) (l : bytes) : option (list (bytes * N)) :=
  match fuel with
  | O => match l with [] => Some [] | _ => None end
  | S f =>
    match l with
    | [] => Some []
    | _ => do '(s, t) <- dec_str l;
           match t with
           | o :: t' => do es <- dec_entries f t'; Some ((s, o) :: es)
           | [] => None
           end
    end
  end.

Fixpoint dec_filters (fuel : nat) (l : bytes) : option (list bytes) :=
  match fuel with
  | O => match l with [] => Some [] | _ => None end
  | S f =>
    match l with
    | [] => Some []
    | _ => do '(s, t) <- dec_str l; do fs <- dec_filters f t; Some (s :: fs)
    end
  end.

Definition bit (n k : N) : bool := N.odd (n / 2 ^ k).

Definition dec_connect (v : ver) (l : bytes) : option body :=
  match l with
  | b0 :: b1 :: b2 :: b3 :: b4 :: b5 :: lv :: fl :: t =>
    (* protocol name "MQTT" and the protocol level of this version *)
    if negb (nlist_eqb [b0; b1; b2; b3; b4; b5; lv] [0; 4; 77; 81; 84; 84; (if is_v5 v then 5 else 4)]) then None else
    if bit fl 0 then None else
    do '(ka, t) <- dec_u16 t;
    do '(ps, t) <- dec_vprops v t;
    do '(cid, t) <- dec_str t;
    do '(w, t) <- (if bit fl 2 then
                     do '(wps, t) <- dec_vprops v t;
                     do '(wt, t) <- dec_str t;
                     do '(wp, t) <- dec_lp t;
                     Some (Some (mkWill ((fl / 8) mod 4) (bit fl 5) wps wt wp), t)
                   else if negb ((fl / 8) mod 4 =? 0) || bit fl 5 then None else Some (None, t));
    do '(user, t) <- (if bit fl 7 then do '(u, t) <- dec_str t; Some (Some u, t) else Some (None, t));
    do '(pass, t) <- (if bit fl 6 then do '(p, t) <- dec_lp t; Some (Some p, t) else Some (None, t));
    match t with [] => Some (BConnect (bit fl 1) ka ps cid w user pass) | _ => None end
  | _ => None
  end.

Definition decode_body (v : ver) (idw : N) (t fl : N) (l : bytes) : option body :=
  if t =? 1 then (if fl =? 0 then dec_connect v l else None)
  else if t =? 2 then
    (if negb (fl =? 0) then None else
     match l with
     | sp :: rc :: r => if 1 <? sp then None else
                        do '(ps, r) <- dec_vprops v r; match r with [] => Some (BConnack (n2b sp) rc ps) | _ => None end
     | _ => None end)
  else if t =? 3 then
    (let qos := (fl / 2) mod 4 in
     do '(topic, r) <- dec_str l;
     do '(pid, r) <- (if qos =? 0 then Some (None, r) else do '(i, r) <- dec_pid idw r; Some (Some i, r));
     do '(ps, r) <- dec_vprops v r;
     Some (BPublish (bit fl 3) qos (bit fl 0) topic pid ps r))
  else if (4 <=? t) && (t <=? 7) then
    (if negb (fl =? (if t =? 6 then 2 else 0)) then None else
     do '(pid, r) <- dec_pid idw l;
     if is_v5 v then do tl <- dec_tail r; Some (BAck t pid tl)
     else match r with [] => Some (BAck t pid (mkTail None None)) | _ => None end)
  else if t =? 8 then
    (if negb (fl =? 2) then None else
     do '(pid, r) <- dec_pid idw l; do '(ps, r) <- dec_vprops v r; do es <- dec_entries (length r) r;
     Some (BSubscribe pid ps es))
  else if t =? 9 then
    (if negb (fl =? 0) then None else
     do '(pid, r) <- dec_pid idw l; do '(ps, r) <- dec_vprops v r; Some (BSuback pid ps r))
  else if t =? 10 then
    (if negb (fl =? 2) then None else
     do '(pid, r) <- dec_pid idw l; do '(ps, r) <- dec_vprops v r; do fs <- dec_filters (length r) r;
     Some (BUnsubscribe pid ps fs))
  else if t =? 11 then
    (if negb (fl =? 0) then None else
     do '(pid, r) <- dec_pid idw l; do '(ps, r) <- dec_vprops v r;
     Some (BUnsuback pid ps r))
  else if t =? 12 then (match fl, l with 0, [] => Some BPingreq | _, _ => None end)
  else if t =? 13 then (match fl, l with 0, [] => Some BPingresp | _, _ => None end)
  else if t =? 14 then
    (if negb (fl =? 0) then None else
     if is_v5 v then do tl <- dec_tail l; Some (BDisconnect tl)
     else match l with [] => Some (BDisconnect (mkTail None None)) | _ => None end)
  else if t =? 15 then
    (if negb (fl =? 0) || negb (is_v5 v) then None else do tl <- dec_tail l; Some (BAuth tl))
  else None.

(* a whole control packet: exactly one frame, nothing left over *)
Definition decode (v : ver) (idw : N) (l : bytes) : option body :=
  match l with
  | [] => None
  | h :: t =>
    do '(rl, r) <- vbi_dec t;
    if negb (N.of_nat (length r) =? rl) then None else
    do b <- decode_body v idw (h / 16) (h mod 16) r;
    if body_ok v idw b then Some b else None
  end.
