(* Properties: round trip for every well-formed property list; the placement rule as a statement
   about lists of any length. *)
From Coq Require Import ZArith ZifyBool ZifyN ZifyNat.
From MQ Require Import Base.Prelude Packet.Prim Packet.PrimProofs Packet.Props.
Ltac Zify.zify_post_hook ::= Z.div_mod_to_equations.

Lemma str_ok_len s : str_ok s = true -> N.of_nat (length s) <= 65535.
Proof. unfold str_ok. intro H. apply andb_true_iff in H as [H _]. apply andb_true_iff in H as [_ H]. lia. Qed.
Lemma bin_ok_len s : bin_ok s = true -> N.of_nat (length s) <= 65535.
Proof. unfold bin_ok. intro H. apply andb_true_iff in H as [_ H]. lia. Qed.

Lemma pval_roundtrip id v r :
  value_ok id v = true -> dec_pval (shape_of_val v) (enc_pval v ++ r) = Some (v, r).
Proof.
  destruct v as [x|x|x|x|s|s|k w]; cbn [value_ok shape_of_val enc_pval]; intro H; unfold dec_pval.
  - reflexivity.
  - change (1 =? 0) with false. change (1 =? 1) with true. cbv iota.
    apply andb_true_iff in H as [H _]. rewrite u16_roundtrip by lia. reflexivity.
  - change (2 =? 0) with false. change (2 =? 1) with false. change (2 =? 2) with true. cbv iota.
    apply andb_true_iff in H as [H _]. rewrite u32_roundtrip by lia. reflexivity.
  - change (3 =? 0) with false. change (3 =? 1) with false. change (3 =? 2) with false. change (3 =? 3) with true. cbv iota.
    apply andb_true_iff in H as [H _]. rewrite vbi_roundtrip by lia. reflexivity.
  - change (4 =? 0) with false. change (4 =? 1) with false. change (4 =? 2) with false. change (4 =? 3) with false.
    change (4 =? 4) with true. cbv iota. rewrite str_roundtrip by exact H. reflexivity.
  - change (5 =? 0) with false. change (5 =? 1) with false. change (5 =? 2) with false. change (5 =? 3) with false.
    change (5 =? 4) with false. change (5 =? 5) with true. cbv iota.
    rewrite lp_roundtrip by (apply bin_ok_len; exact H). reflexivity.
  - change (6 =? 0) with false. change (6 =? 1) with false. change (6 =? 2) with false. change (6 =? 3) with false.
    change (6 =? 4) with false. change (6 =? 5) with false. cbv iota.
    apply andb_true_iff in H as [Hk Hw]. rewrite <- app_assoc, str_roundtrip by exact Hk.
    rewrite str_roundtrip by exact Hw. reflexivity.
Qed.

Theorem prop_roundtrip p r : prop_ok p = true -> dec_prop (enc_prop p ++ r) = Some (p, r).
Proof.
  destruct p as [id v]. unfold prop_ok, enc_prop, dec_prop. cbn [p_id p_val app].
  destruct (shape_of_id id) as [sh|]; [|discriminate]. intro H. apply andb_true_iff in H as [Hs Hv].
  apply N.eqb_eq in Hs. subst sh. rewrite (pval_roundtrip id v r Hv), Hv. reflexivity.
Qed.

Lemma enc_prop_nonempty p : enc_prop p <> [].
Proof. unfold enc_prop. discriminate. Qed.

Lemma props_body_roundtrip ps : forall fuel,
  forallb prop_ok ps = true -> (length (enc_props_body ps) <= fuel)%nat ->
  dec_props_body fuel (enc_props_body ps) = Some ps.
Proof.
  induction ps as [|p t IH]; intros fuel Hok Hf.
  - destruct fuel; reflexivity.
  - cbn [forallb] in Hok. apply andb_true_iff in Hok as [Hp Ht].
    unfold enc_props_body in *. cbn [flat_map] in *. rewrite app_length in Hf.
    destruct fuel as [|f]; [assert (1 <= length (enc_prop p))%nat by (unfold enc_prop; cbn [length]; lia); lia|].
    cbn [dec_props_body]. destruct (enc_prop p ++ flat_map enc_prop t) eqn:E.
    + exfalso. apply app_eq_nil in E as [E _]. now apply enc_prop_nonempty in E.
    + rewrite <- E. rewrite (prop_roundtrip p _ Hp). rewrite IH; [reflexivity|exact Ht|].
      assert (1 <= length (enc_prop p))%nat by (unfold enc_prop; cbn [length]; lia). lia.
Qed.

(* every list of well-formed properties whose encoded length fits a Variable Byte Integer *)
Theorem props_roundtrip ps r :
  forallb prop_ok ps = true -> N.of_nat (length (enc_props_body ps)) <= VBI_MAX ->
  dec_props (enc_props ps ++ r) = Some (ps, r).
Proof.
  intros Hok Hlen. unfold enc_props, dec_props. cbv zeta. rewrite <- app_assoc, vbi_roundtrip by exact Hlen.
  rewrite app_length.
  assert (N.of_nat (length (enc_props_body ps) + length r) <? N.of_nat (length (enc_props_body ps)) = false) as -> by lia.
  rewrite Nat2N.id, firstn_app, Nat.sub_diag, firstn_all, skipn_app, Nat.sub_diag, skipn_all. cbn [firstn skipn app].
  rewrite app_nil_r, props_body_roundtrip; [reflexivity|exact Hok|lia].
Qed.

(* ---------- the placement rule for lists of ANY length ---------- *)
Lemma count_id_in id ids : memn id ids = true <-> 1 <= count_id id ids.
Proof.
  unfold memn, count_id. induction ids as [|x t IH]; cbn [existsb filter]; [cbn; lia|].
  destruct (id =? x) eqn:E; cbn [orb length]; [lia|exact IH].
Qed.

Theorem placement_iff loc ids :
  placement_ok loc ids = true <->
  (forall id, In id ids -> prop_allowed loc id = true) /\
  (forall id, prop_repeatable loc id = false -> count_id id ids <= 1).
Proof.
  unfold placement_ok. rewrite forallb_forall. split.
  - intro H. split.
    + intros id Hin. specialize (H id Hin). apply andb_true_iff in H. tauto.
    + intros id Hr. destruct (memn id ids) eqn:Em.
      * assert (Hin : In id ids).
        { unfold memn in Em. apply existsb_exists in Em as (x & Hx & Ex). apply N.eqb_eq in Ex. now subst. }
        specialize (H id Hin). apply andb_true_iff in H as [_ H]. rewrite Hr in H. cbn [orb] in H. lia.
      * destruct (N.le_gt_cases (count_id id ids) 1) as [Hc|Hc]; [exact Hc|].
        assert (1 <= count_id id ids) by lia. apply count_id_in in H0. congruence.
  - intros [Ha Hc] id Hin. rewrite (Ha id Hin). cbn [andb].
    destruct (prop_repeatable loc id) eqn:Er; [reflexivity|]. specialize (Hc id Er). cbn [orb]. lia.
Qed.

(* the finite facts of the table, by computation over all 14 locations x 27 identifiers *)
Theorem allowed_only_known loc id : prop_allowed loc id = true -> memn id ALL_PROP_IDS = true /\ memn loc ALL_LOCS = true.
Proof.
  intro H. unfold prop_allowed in H. split.
  - destruct (memn id ALL_PROP_IDS) eqn:E; [reflexivity|]. exfalso.
    unfold memn, ALL_PROP_IDS in E. cbn [existsb] in E.
    repeat match type of E with (_ || _) = false => apply orb_false_iff in E; let E1 := fresh "E" in destruct E as [E1 E] end.
    unfold locs_of_prop in H.
    repeat match goal with E0 : (id =? _) = false |- _ => rewrite E0 in H; clear E0 end.
    discriminate.
  - destruct (memn loc ALL_LOCS) eqn:E; [reflexivity|]. exfalso.
    unfold memn, ALL_LOCS in E. cbn [existsb] in E.
    repeat match type of E with (_ || _) = false => apply orb_false_iff in E; let E1 := fresh "E" in destruct E as [E1 E] end.
    unfold locs_of_prop, ALL_LOCS, memn, L_CONNECT, L_CONNACK, L_PUBLISH, L_PUBACK, L_PUBREC, L_PUBREL, L_PUBCOMP, L_SUBSCRIBE,
           L_SUBACK, L_UNSUBSCRIBE, L_UNSUBACK, L_DISCONNECT, L_AUTH, L_WILL in H.
    repeat match type of H with context [if ?b then _ else _] => destruct b end;
      cbn [existsb] in H;
      repeat match goal with E0 : (loc =? _) = false |- _ => rewrite E0 in H; clear E0 end; discriminate.
Qed.

(* User Property everywhere; Subscription Identifier repeats only in PUBLISH *)
Theorem repeatable_spec loc id :
  prop_repeatable loc id = true <-> id = 38 \/ (id = 11 /\ loc = L_PUBLISH).
Proof.
  unfold prop_repeatable. rewrite orb_true_iff, andb_true_iff, !N.eqb_eq. tauto.
Qed.

(* value rules *)
Theorem receive_maximum_nonzero x : value_ok 33 (VU16 x) = true <-> x < 65536 /\ x <> 0.
Proof. cbn [value_ok]. change ((33 =? 33) || (33 =? 35)) with true. cbv iota. lia. Qed.
Theorem topic_alias_nonzero x : value_ok 35 (VU16 x) = true <-> x < 65536 /\ x <> 0.
Proof. cbn [value_ok]. change ((35 =? 33) || (35 =? 35)) with true. cbv iota. lia. Qed.
Theorem maximum_packet_size_nonzero x : value_ok 39 (VU32 x) = true <-> x < 4294967296 /\ x <> 0.
Proof. cbn [value_ok]. change (39 =? 39) with true. cbv iota. lia. Qed.
Theorem subscription_identifier_nonzero x : value_ok 11 (VVbi x) = true <-> x <= VBI_MAX /\ x <> 0.
Proof. cbn [value_ok]. change (11 =? 11) with true. cbv iota. unfold VBI_MAX. lia. Qed.
Theorem flag_values id x :
  memn id [1; 23; 25; 36; 37; 40; 41; 42] = true -> (value_ok id (VByte x) = true <-> x <= 1).
Proof.
  intro H0. unfold memn in H0. cbn [existsb] in H0.
  repeat (apply orb_true_iff in H0 as [H0|H0]; [apply N.eqb_eq in H0; subst id; cbv beta iota delta [value_ok N.eqb Pos.eqb orb]; lia|]). discriminate.
Qed.
