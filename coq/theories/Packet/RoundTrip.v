(* C02: every packet the builders accept survives encode -> decode unchanged, for all 29 kinds,
   both identifier widths, every field value and every length. *)
From Coq Require Import ZArith ZifyBool ZifyN ZifyNat.
From MQ Require Import Base.Prelude Packet.Prim Packet.PrimProofs Packet.Props Packet.PropsProofs Packet.Packets Packet.Decode.
Ltac Zify.zify_post_hook ::= Z.div_mod_to_equations.

Lemma props_valid_ok loc ps : props_valid loc ps = true -> forallb prop_ok ps = true.
Proof. unfold props_valid. intro H. now apply andb_true_iff in H as [H _]. Qed.

Lemma vprops_roundtrip v loc ps r : vprops_ok v loc ps = true -> dec_vprops v (opt_props v ps ++ r) = Some (ps, r).
Proof.
  unfold vprops_ok, dec_vprops, opt_props, props_fit. destruct (is_v5 v).
  - intro H. apply andb_true_iff in H as [H1 H2]. apply props_roundtrip; [now apply props_valid_ok in H1|lia].
  - destruct ps; [reflexivity|discriminate].
Qed.

Lemma vbi_enc_nonempty n : vbi_enc n <> [].
Proof. unfold vbi_enc. cbn [vbi_enc_f]. destruct (n <? 128); discriminate. Qed.

Lemma tail_roundtrip loc rc_ok tl : tail_ok loc rc_ok tl = true -> dec_tail (enc_tail tl) = Some tl.
Proof.
  destruct tl as [[rc|] [ps|]]; unfold tail_ok, enc_tail, dec_tail; cbn [t_rc t_props]; try discriminate; try reflexivity.
  intro H. apply andb_true_iff in H as [H H3]. apply andb_true_iff in H as [H1 H2].
  destruct (enc_props ps) eqn:E.
  - exfalso. unfold enc_props in E. apply app_eq_nil in E as [E _]. now apply vbi_enc_nonempty in E.
  - rewrite <- E. rewrite <- (app_nil_r (enc_props ps)).
    rewrite props_roundtrip; [reflexivity|now apply props_valid_ok in H2|lia].
Qed.

Lemma entries_roundtrip (q : N -> bool) es : forall fuel,
  forallb (fun e => str_ok (fst e) && q (snd e)) es = true ->
  (length (flat_map (fun e => enc_lp (fst e) ++ [snd e]) es) <= fuel)%nat ->
  dec_entries fuel (flat_map (fun e => enc_lp (fst e) ++ [snd e]) es) = Some es.
Proof.
  induction es as [|[s o] t IH]; intros fuel Hok Hf.
  - destruct fuel; reflexivity.
  - cbn [forallb fst snd] in Hok. apply andb_true_iff in Hok as [Hp Ht]. apply andb_true_iff in Hp as [Hs Ho].
    cbn [flat_map fst snd] in *. rewrite app_length in Hf.
    assert (Hl : (3 <= length (enc_lp s ++ [o]))%nat) by (unfold enc_lp, enc_u16; rewrite !app_length; cbn [length]; lia).
    destruct fuel as [|f]; [lia|]. cbn [dec_entries].
    destruct ((enc_lp s ++ [o]) ++ _) eqn:E; [unfold enc_lp, enc_u16 in E; discriminate|]. rewrite <- E.
    rewrite <- app_assoc. rewrite (str_roundtrip s _ Hs). cbn [obind app].
    rewrite IH; [reflexivity|exact Ht|lia].
Qed.

Lemma filters_roundtrip fs : forall fuel,
  forallb str_ok fs = true -> (length (flat_map enc_lp fs) <= fuel)%nat ->
  dec_filters fuel (flat_map enc_lp fs) = Some fs.
Proof.
  induction fs as [|s t IH]; intros fuel Hok Hf.
  - destruct fuel; reflexivity.
  - cbn [forallb] in Hok. apply andb_true_iff in Hok as [Hs Ht].
    cbn [flat_map] in *. rewrite app_length in Hf.
    assert (Hl : (2 <= length (enc_lp s))%nat) by (unfold enc_lp, enc_u16; rewrite !app_length; cbn [length]; lia).
    destruct fuel as [|f]; [lia|]. cbn [dec_filters].
    destruct (enc_lp s ++ _) eqn:E; [unfold enc_lp, enc_u16 in E; discriminate|]. rewrite <- E.
    rewrite (str_roundtrip s _ Hs). cbn [obind].
    rewrite IH; [reflexivity|exact Ht|lia].
Qed.

(* ---------- flag bytes ---------- *)
Lemma le2_cases q : q <= 2 -> q = 0 \/ q = 1 \/ q = 2.
Proof. lia. Qed.

Lemma publish_flag_bits (dup : bool) (qos : N) (retain : bool) :
  qos <= 2 ->
  let fl := (if dup then 8 else 0) + qos * 2 + (if retain then 1 else 0) in
  fl < 16 /\ (fl / 2) mod 4 = qos /\ bit fl 3 = dup /\ bit fl 0 = retain.
Proof.
  intro H. cbv zeta. destruct (le2_cases qos H) as [E|[E|E]]; subst qos; destruct dup, retain; vm_compute; repeat split; discriminate.
Qed.

Definition will_is (w : option will) : bool := match w with Some _ => true | None => false end.
Definition some_is {A} (o : option A) : bool := match o with Some _ => true | None => false end.

Lemma connect_flag_bits (clean : bool) (w : option will) (user pass : option bytes) :
  opt_ok (fun x => w_qos x <=? 2) w = true ->
  let fl := connect_flags clean w user pass in
  bit fl 0 = false /\ bit fl 1 = clean /\ bit fl 2 = will_is w /\
  (fl / 8) mod 4 = match w with Some x => w_qos x | None => 0 end /\
  bit fl 5 = match w with Some x => w_retain x | None => false end /\
  bit fl 6 = some_is pass /\ bit fl 7 = some_is user /\ fl < 256.
Proof.
  intro H. unfold connect_flags. destruct w as [[q r ps t p]|]; cbn [opt_ok w_qos w_retain will_is] in *.
  - apply N.leb_le in H. cbv zeta. destruct (le2_cases q H) as [E|[E|E]]; subst q; destruct clean, r, user, pass; vm_compute; repeat split; discriminate.
  - cbv zeta. destruct clean, user, pass; vm_compute; repeat split; discriminate.
Qed.

(* ---------- bodies ---------- *)
Lemma ack_body_roundtrip v idw t pid tl :
  body_ok v idw (BAck t pid tl) = true ->
  decode_body v idw t (flags_of (BAck t pid tl)) (enc_body v idw (BAck t pid tl)) = Some (BAck t pid tl).
Proof.
  unfold body_ok. intro H. apply andb_true_iff in H as [H Ht]. apply andb_true_iff in H as [H Hp].
  apply andb_true_iff in H as [T1 T2]. unfold pid_ok in Hp. apply andb_true_iff in Hp as [P1 P2].
  unfold decode_body, flags_of, enc_body.
  assert (t =? 1 = false) as -> by lia. assert (t =? 2 = false) as -> by lia. assert (t =? 3 = false) as -> by lia.
  rewrite T1, T2. cbn [andb]. rewrite N.eqb_refl. cbn [negb].
  rewrite pid_roundtrip by lia. cbn [obind].
  destruct (is_v5 v).
  - rewrite (tail_roundtrip t (ack_rc_ok t) tl Ht). reflexivity.
  - destruct tl as [[rc|] [ps|]]; try discriminate. reflexivity.
Qed.

Ltac type_tests t :=
  repeat match goal with |- context [t =? ?k] =>
    let b := eval vm_compute in (t =? k) in change (t =? k) with b end;
  repeat match goal with |- context [(?a <=? t)] =>
    let b := eval vm_compute in (a <=? t) in change (a <=? t) with b end;
  repeat match goal with |- context [(t <=? ?a)] =>
    let b := eval vm_compute in (t <=? a) in change (t <=? a) with b end;
  cbn [andb orb negb]; cbv iota.

Lemma connack_body_roundtrip v idw sp rc ps :
  body_ok v idw (BConnack sp rc ps) = true ->
  decode_body v idw 2 0 (enc_body v idw (BConnack sp rc ps)) = Some (BConnack sp rc ps).
Proof.
  unfold body_ok. intro H. apply andb_true_iff in H as [_ Hp].
  unfold decode_body, enc_body. type_tests 2. change (0 =? 0) with true. cbn [negb app].
  assert (1 <? b2n sp = false) as -> by (destruct sp; reflexivity).
  rewrite <- (app_nil_r (opt_props v ps)), (vprops_roundtrip v L_CONNACK ps [] Hp). cbn [obind].
  destruct sp; reflexivity.
Qed.

Lemma publish_body_roundtrip v idw dup qos retain topic pid ps payload :
  body_ok v idw (BPublish dup qos retain topic pid ps payload) = true ->
  decode_body v idw 3 (flags_of (BPublish dup qos retain topic pid ps payload))
              (enc_body v idw (BPublish dup qos retain topic pid ps payload)) =
  Some (BPublish dup qos retain topic pid ps payload).
Proof.
  unfold body_ok. intro H. apply andb_true_iff in H as [H Htop]. apply andb_true_iff in H as [H Hpid].
  apply andb_true_iff in H as [H Hps]. apply andb_true_iff in H as [Hq _]. apply N.leb_le in Hq.
  destruct (publish_flag_bits dup qos retain Hq) as (_ & F1 & F2 & F3).
  unfold decode_body, flags_of, enc_body. type_tests 3. cbv zeta. rewrite F1, F2, F3.
  assert (Hst : str_ok topic = true).
  { destruct (is_v5 v); [apply andb_true_iff in Htop as [Htop _]; now apply andb_true_iff in Htop as [Htop _]|].
    apply andb_true_iff in Htop as [Htop _]. unfold topic_name_ok in Htop. now apply andb_true_iff in Htop as [Htop _]. }
  rewrite (str_roundtrip topic _ Hst). cbn [obind].
  destruct pid as [i|].
  - apply andb_true_iff in Hpid as [Hq0 Hi]. apply negb_true_iff in Hq0. rewrite Hq0.
    unfold pid_ok in Hi. apply andb_true_iff in Hi as [_ Hi]. rewrite pid_roundtrip by lia. cbn [obind].
    rewrite (vprops_roundtrip v L_PUBLISH ps payload Hps). reflexivity.
  - rewrite Hpid. cbn [obind app]. rewrite (vprops_roundtrip v L_PUBLISH ps payload Hps). reflexivity.
Qed.

Lemma subscribe_body_roundtrip v idw pid ps es :
  body_ok v idw (BSubscribe pid ps es) = true ->
  decode_body v idw 8 2 (enc_body v idw (BSubscribe pid ps es)) = Some (BSubscribe pid ps es).
Proof.
  unfold body_ok. intro H. apply andb_true_iff in H as [H He]. apply andb_true_iff in H as [H _].
  apply andb_true_iff in H as [Hp Hps]. unfold pid_ok in Hp. apply andb_true_iff in Hp as [_ Hp].
  unfold decode_body, enc_body. type_tests 8. change (2 =? 2) with true. cbn [negb].
  rewrite pid_roundtrip by lia. cbn [obind]. rewrite (vprops_roundtrip v L_SUBSCRIBE ps _ Hps). cbn [obind].
  rewrite (entries_roundtrip (sub_opts_ok v)); [reflexivity|exact He|lia].
Qed.

Lemma suback_body_roundtrip v idw pid ps codes :
  body_ok v idw (BSuback pid ps codes) = true ->
  decode_body v idw 9 0 (enc_body v idw (BSuback pid ps codes)) = Some (BSuback pid ps codes).
Proof.
  unfold body_ok. intro H. apply andb_true_iff in H as [H _]. apply andb_true_iff in H as [H _].
  apply andb_true_iff in H as [Hp Hps]. unfold pid_ok in Hp. apply andb_true_iff in Hp as [_ Hp].
  unfold decode_body, enc_body. type_tests 9. change (0 =? 0) with true. cbn [negb].
  rewrite pid_roundtrip by lia. cbn [obind]. rewrite (vprops_roundtrip v L_SUBACK ps _ Hps). reflexivity.
Qed.

Lemma unsubscribe_body_roundtrip v idw pid ps fs :
  body_ok v idw (BUnsubscribe pid ps fs) = true ->
  decode_body v idw 10 2 (enc_body v idw (BUnsubscribe pid ps fs)) = Some (BUnsubscribe pid ps fs).
Proof.
  unfold body_ok. intro H. apply andb_true_iff in H as [H He]. apply andb_true_iff in H as [H _].
  apply andb_true_iff in H as [Hp Hps]. unfold pid_ok in Hp. apply andb_true_iff in Hp as [_ Hp].
  unfold decode_body, enc_body. type_tests 10. change (2 =? 2) with true. cbn [negb].
  rewrite pid_roundtrip by lia. cbn [obind]. rewrite (vprops_roundtrip v L_UNSUBSCRIBE ps _ Hps). cbn [obind].
  rewrite filters_roundtrip; [reflexivity|exact He|lia].
Qed.

Lemma unsuback_body_roundtrip v idw pid ps codes :
  body_ok v idw (BUnsuback pid ps codes) = true ->
  decode_body v idw 11 0 (enc_body v idw (BUnsuback pid ps codes)) = Some (BUnsuback pid ps codes).
Proof.
  unfold body_ok. intro H. apply andb_true_iff in H as [H _].
  apply andb_true_iff in H as [Hp Hps]. unfold pid_ok in Hp. apply andb_true_iff in Hp as [_ Hp].
  unfold decode_body, enc_body. type_tests 11. change (0 =? 0) with true. cbn [negb].
  rewrite pid_roundtrip by lia. cbn [obind]. rewrite (vprops_roundtrip v L_UNSUBACK ps _ Hps). reflexivity.
Qed.

Lemma disconnect_body_roundtrip v idw tl :
  body_ok v idw (BDisconnect tl) = true ->
  decode_body v idw 14 0 (enc_body v idw (BDisconnect tl)) = Some (BDisconnect tl).
Proof.
  unfold body_ok, decode_body, enc_body. type_tests 14. change (0 =? 0) with true. cbn [negb].
  destruct (is_v5 v); intro H.
  - rewrite (tail_roundtrip L_DISCONNECT disconnect_rc_ok tl H). reflexivity.
  - destruct tl as [[rc|] [ps|]]; try discriminate. reflexivity.
Qed.

Lemma auth_body_roundtrip v idw tl :
  body_ok v idw (BAuth tl) = true ->
  decode_body v idw 15 0 (enc_body v idw (BAuth tl)) = Some (BAuth tl).
Proof.
  unfold body_ok, decode_body, enc_body. type_tests 15. change (0 =? 0) with true. cbn [negb].
  intro H. apply andb_true_iff in H as [H _]. apply andb_true_iff in H as [Hv H]. rewrite Hv. cbn [negb].
  rewrite (tail_roundtrip L_AUTH auth_rc_ok tl H). reflexivity.
Qed.

Lemma connect_body_roundtrip v idw clean ka ps cid w user pass :
  body_ok v idw (BConnect clean ka ps cid w user pass) = true ->
  decode_body v idw 1 0 (enc_body v idw (BConnect clean ka ps cid w user pass)) =
  Some (BConnect clean ka ps cid w user pass).
Proof.
  unfold body_ok. intro H. apply andb_true_iff in H as [H Hpu]. apply andb_true_iff in H as [H Hpass].
  apply andb_true_iff in H as [H Huser]. apply andb_true_iff in H as [H Hw]. apply andb_true_iff in H as [H Hcid].
  apply andb_true_iff in H as [Hka Hps]. apply N.ltb_lt in Hka.
  assert (Hwq : opt_ok (fun x => w_qos x <=? 2) w = true).
  { destruct w as [x|]; [|reflexivity]. cbn [opt_ok] in *. apply andb_true_iff in Hw as [Hw _].
    apply andb_true_iff in Hw as [Hw _]. now apply andb_true_iff in Hw as [Hw _]. }
  destruct (connect_flag_bits clean w user pass Hwq) as (B0 & B1 & B2 & BQ & B5 & B6 & B7 & _).
  unfold decode_body, enc_body. type_tests 1. change (0 =? 0) with true. cbv iota.
  unfold dec_connect. cbn [app].
  match goal with |- context [nlist_eqb ?a ?b] => assert (nlist_eqb a b = true) as -> by (apply nlist_eqb_eq; reflexivity) end.
  cbn [negb]. rewrite B0, B1, B2, B5, B6, B7, BQ.
  rewrite u16_roundtrip by lia. cbn [obind].
  rewrite (vprops_roundtrip v L_CONNECT ps _ Hps). cbn [obind].
  rewrite (str_roundtrip cid _ Hcid). cbn [obind].
  destruct w as [[q r wps wt wp]|]; cbn [will_is opt_ok w_qos w_retain w_props w_topic w_payload] in *.
  - apply andb_true_iff in Hw as [Hw Hwp]. apply andb_true_iff in Hw as [Hw Hwt]. apply andb_true_iff in Hw as [_ Hwps].
    unfold enc_will. cbn [w_props w_topic w_payload]. rewrite <- !app_assoc.
    rewrite (vprops_roundtrip v L_WILL wps _ Hwps). cbn [obind].
    rewrite (str_roundtrip wt _ Hwt). cbn [obind].
    rewrite lp_roundtrip by (apply bin_ok_len; exact Hwp). cbn [obind].
    destruct user as [u|]; cbn [some_is opt_ok] in *.
    + rewrite (str_roundtrip u _ Huser). cbn [obind].
      destruct pass as [p|]; cbn [some_is opt_ok] in *.
      * rewrite <- (app_nil_r (enc_lp p)), lp_roundtrip by (apply bin_ok_len; exact Hpass). reflexivity.
      * reflexivity.
    + destruct pass as [p|]; [discriminate|]. reflexivity.
  - change (0 =? 0) with true. cbn [negb orb app obind].
    destruct user as [u|]; cbn [some_is opt_ok] in *.
    + rewrite (str_roundtrip u _ Huser). cbn [obind].
      destruct pass as [p|]; cbn [some_is opt_ok] in *.
      * rewrite <- (app_nil_r (enc_lp p)), lp_roundtrip by (apply bin_ok_len; exact Hpass). reflexivity.
      * reflexivity.
    + destruct pass as [p|]; [discriminate|]. reflexivity.
Qed.

Lemma flags_lt16 v idw b : body_ok v idw b = true -> flags_of b < 16.
Proof.
  destruct b; cbn [flags_of]; try lia.
  - unfold body_ok. intro H. repeat (apply andb_true_iff in H as [H _]). apply N.leb_le in H.
    destruct (publish_flag_bits dup qos retain H) as (F & _). exact F.
  - destruct (t =? 6); lia.
Qed.

Lemma body_roundtrip v idw b :
  body_ok v idw b = true -> decode_body v idw (type_of b) (flags_of b) (enc_body v idw b) = Some b.
Proof.
  destruct b; intro H.
  - apply connect_body_roundtrip; exact H.
  - apply connack_body_roundtrip; exact H.
  - apply publish_body_roundtrip; exact H.
  - apply (ack_body_roundtrip v idw t pid tl H).
  - apply subscribe_body_roundtrip; exact H.
  - apply suback_body_roundtrip; exact H.
  - apply unsubscribe_body_roundtrip; exact H.
  - apply unsuback_body_roundtrip; exact H.
  - reflexivity.
  - reflexivity.
  - apply disconnect_body_roundtrip; exact H.
  - apply auth_body_roundtrip; exact H.
Qed.

Lemma type_range v idw b : body_ok v idw b = true -> 1 <= type_of b /\ type_of b <= 15.
Proof.
  destruct b; cbn [type_of]; try lia. unfold body_ok. intro H.
  apply andb_true_iff in H as [H _]. apply andb_true_iff in H as [H _]. apply andb_true_iff in H as [H1 H2]. lia.
Qed.

(* C02: for every packet the builders accept — all kinds, both versions, both identifier widths,
   every field value, every length — decoding its encoding gives it back, and the Remaining Length
   field on the wire is the length of the body *)
Theorem packet_roundtrip v idw b :
  packet_ok v idw b = true -> decode v idw (encode v idw b) = Some b.
Proof.
  unfold packet_ok. intro H. apply andb_true_iff in H as [Hb Hl]. apply N.leb_le in Hl.
  unfold encode, decode. cbv zeta.
  rewrite vbi_roundtrip by exact Hl. cbn [obind]. rewrite N.eqb_refl. cbn [negb].
  pose proof (flags_lt16 v idw b Hb) as Hf. pose proof (type_range v idw b Hb) as Ht.
  assert ((type_of b * 16 + flags_of b) / 16 = type_of b) as -> by lia.
  assert ((type_of b * 16 + flags_of b) mod 16 = flags_of b) as -> by lia.
  rewrite (body_roundtrip v idw b Hb). cbn [obind]. now rewrite Hb.
Qed.

Theorem remaining_length_field v idw b :
  packet_ok v idw b = true ->
  exists rest, encode v idw b = (type_of b * 16 + flags_of b) :: vbi_enc (N.of_nat (length rest)) ++ rest /\
               rest = enc_body v idw b /\
               N.of_nat (length (encode v idw b)) = 1 + vbi_size (N.of_nat (length rest)) + N.of_nat (length rest).
Proof.
  unfold packet_ok. intro H. apply andb_true_iff in H as [_ Hl]. apply N.leb_le in Hl.
  exists (enc_body v idw b). split; [reflexivity|]. split; [reflexivity|].
  unfold encode. cbv zeta. cbn [length]. rewrite app_length. pose proof (vbi_enc_length _ Hl). lia.
Qed.

(* ---------- C04: what the reference decoder accepts ---------- *)
Theorem decode_accepts_only_valid v idw l b : decode v idw l = Some b -> body_ok v idw b = true.
Proof.
  unfold decode. destruct l as [|h t]; [discriminate|].
  destruct (vbi_dec t) as [[rl r]|]; cbn [obind]; [|discriminate].
  destruct (negb _); [discriminate|].
  destruct (decode_body v idw (h / 16) (h mod 16) r) as [b'|]; cbn [obind]; [|discriminate].
  destruct (body_ok v idw b') eqn:E; [|discriminate]. intro H. inversion H. subst. exact E.
Qed.

(* the primitive decoders never claim more than they were given *)
Lemma dec_lp_consumes l d t : dec_lp l = Some (d, t) -> (length d + length t + 2 = length l)%nat.
Proof.
  unfold dec_lp, dec_u16. destruct l as [|a [|b l]]; try discriminate.
  destruct (N.of_nat (length l) <? a * 256 + b) eqn:E; [discriminate|]. intro H. inversion H; subst.
  rewrite firstn_length, skipn_length. cbn [length]. lia.
Qed.

Lemma vbi_dec_consumes l n t : vbi_dec l = Some (n, t) -> (1 <= length l - length t <= 4)%nat /\ (length t <= length l)%nat.
Proof.
  unfold vbi_dec. destruct (vbi_dec_f 4 1 0 l) as [[n' t']|] eqn:E; [|discriminate].
  destruct (_ =? _) eqn:Es; [|discriminate]. intro H. inversion H; subst.
  unfold vbi_size in Es.
  assert (length t <= length l)%nat.
  { destruct l as [|b0 l]; cbn [vbi_dec_f] in E; [discriminate|].
    destruct (b0 <? 128); [inversion E; subst; cbn [length]; lia|].
    destruct l as [|b1 l]; cbn [vbi_dec_f] in E; [discriminate|].
    destruct (b1 <? 128); [inversion E; subst; cbn [length]; lia|].
    destruct l as [|b2 l]; cbn [vbi_dec_f] in E; [discriminate|].
    destruct (b2 <? 128); [inversion E; subst; cbn [length]; lia|].
    destruct l as [|b3 l]; cbn [vbi_dec_f] in E; [discriminate|].
    destruct (b3 <? 128); [inversion E; subst; cbn [length]; lia|discriminate]. }
  split; [|exact H0].
  destruct (n <? 128); [lia|]. destruct (n <? 16384); [lia|]. destruct (n <? 2097152); lia.
Qed.
