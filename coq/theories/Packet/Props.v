(* MQTT v5.0 properties (2.2.2): identifiers, value shapes, where each may appear, which may repeat.
   Written from the OASIS specification tables, independently of the library's match statements. *)
From MQ Require Import Base.Prelude Packet.Prim.

(* value shapes (2.2.2.2 Table 2-4) *)
Inductive pval :=
| VByte (v : N) | VU16 (v : N) | VU32 (v : N) | VVbi (v : N)
| VStr (s : bytes) | VBin (s : bytes) | VPair (k v : bytes).

Record prop := mkProp { p_id : N; p_val : pval }.

(* shape codes shared with the harness dump: 0 byte 1 u16 2 u32 3 vbi 4 string 5 binary 6 pair *)
Definition shape_of_id (id : N) : option N :=
  if id =? 1 then Some 0 else if id =? 2 then Some 2 else if id =? 3 then Some 4 else if id =? 8 then Some 4
  else if id =? 9 then Some 5 else if id =? 11 then Some 3 else if id =? 17 then Some 2 else if id =? 18 then Some 4
  else if id =? 19 then Some 1 else if id =? 21 then Some 4 else if id =? 22 then Some 5 else if id =? 23 then Some 0
  else if id =? 24 then Some 2 else if id =? 25 then Some 0 else if id =? 26 then Some 4 else if id =? 28 then Some 4
  else if id =? 31 then Some 4 else if id =? 33 then Some 1 else if id =? 34 then Some 1 else if id =? 35 then Some 1
  else if id =? 36 then Some 0 else if id =? 37 then Some 0 else if id =? 38 then Some 6 else if id =? 39 then Some 2
  else if id =? 40 then Some 0 else if id =? 41 then Some 0 else if id =? 42 then Some 0 else None.

Definition ALL_PROP_IDS : list N :=
  [1; 2; 3; 8; 9; 11; 17; 18; 19; 21; 22; 23; 24; 25; 26; 28; 31; 33; 34; 35; 36; 37; 38; 39; 40; 41; 42].

Definition shape_of_val (v : pval) : N :=
  match v with VByte _ => 0 | VU16 _ => 1 | VU32 _ => 2 | VVbi _ => 3 | VStr _ => 4 | VBin _ => 5 | VPair _ _ => 6 end.

(* value rules of the specification: flags are 0/1; Receive Maximum, Topic Alias, Maximum Packet Size
   and Subscription Identifier are non-zero; Maximum QoS is 0 or 1 *)
Definition value_ok (id : N) (v : pval) : bool :=
  match v with
  | VByte x => (x <? 256) &&
               (if (id =? 1) || (id =? 23) || (id =? 25) || (id =? 36) || (id =? 37) || (id =? 40) || (id =? 41) || (id =? 42)
                then x <=? 1 else true)
  | VU16 x => (x <? 65536) && (if (id =? 33) || (id =? 35) then negb (x =? 0) else true)
  | VU32 x => (x <? 4294967296) && (if id =? 39 then negb (x =? 0) else true)
  | VVbi x => (x <=? VBI_MAX) && (if id =? 11 then negb (x =? 0) else true)
  | VStr s => str_ok s
  | VBin s => bin_ok s
  | VPair k w => str_ok k && str_ok w
  end.

Definition prop_ok (p : prop) : bool :=
  match shape_of_id (p_id p) with
  | Some sh => (sh =? shape_of_val (p_val p)) && value_ok (p_id p) (p_val p)
  | None => false
  end.

(* ---------- encoding ---------- *)
Definition enc_pval (v : pval) : bytes :=
  match v with
  | VByte x => [x] | VU16 x => enc_u16 x | VU32 x => enc_u32 x | VVbi x => vbi_enc x
  | VStr s => enc_lp s | VBin s => enc_lp s | VPair k w => enc_lp k ++ enc_lp w
  end.
Definition enc_prop (p : prop) : bytes := p_id p :: enc_pval (p_val p).
Definition enc_props_body (ps : list prop) : bytes := flat_map enc_prop ps.
(* property length + properties *)
Definition enc_props (ps : list prop) : bytes :=
  let b := enc_props_body ps in vbi_enc (N.of_nat (length b)) ++ b.

(* ---------- decoding ---------- *)
Definition dec_pval (sh : N) (l : bytes) : option (pval * bytes) :=
  if sh =? 0 then match dec_u8 l with Some (x, t) => Some (VByte x, t) | None => None end
  else if sh =? 1 then match dec_u16 l with Some (x, t) => Some (VU16 x, t) | None => None end
  else if sh =? 2 then match dec_u32 l with Some (x, t) => Some (VU32 x, t) | None => None end
  else if sh =? 3 then match vbi_dec l with Some (x, t) => Some (VVbi x, t) | None => None end
  else if sh =? 4 then match dec_str l with Some (s, t) => Some (VStr s, t) | None => None end
  else if sh =? 5 then match dec_lp l with Some (s, t) => Some (VBin s, t) | None => None end
  else match dec_str l with
       | Some (k, t) => match dec_str t with Some (w, t') => Some (VPair k w, t') | None => None end
       | None => None end.

Definition dec_prop (l : bytes) : option (prop * bytes) :=
  match l with
  | [] => None
  | id :: t =>
    match shape_of_id id with
    | Some sh => match dec_pval sh t with
                 | Some (v, t') => if value_ok id v then Some (mkProp id v, t') else None
                 | None => None end
    | None => None
    end
  end.

(* all properties of a block of exactly the announced length *)
Fixpoint dec_props_body (fuel : nat) (l : bytes) : option (list prop) :=
  match fuel with
  | O => match l with [] => Some [] | _ => None end
  | S f =>
    match l with
    | [] => Some []
    | _ => match dec_prop l with
           | Some (p, t) => match dec_props_body f t with Some ps => Some (p :: ps) | None => None end
           | None => None end
    end
  end.

Definition dec_props (l : bytes) : option (list prop * bytes) :=
  match vbi_dec l with
  | Some (n, t) =>
    if N.of_nat (length t) <? n then None else
    match dec_props_body (N.to_nat n) (firstn (N.to_nat n) t) with
    | Some ps => Some (ps, skipn (N.to_nat n) t)
    | None => None
    end
  | None => None
  end.

(* ---------- where a property may appear (3.x.2.x "Properties" of each packet; Table 2-4) ---------- *)
Definition L_CONNECT := 1.  Definition L_CONNACK := 2.  Definition L_PUBLISH := 3.  Definition L_PUBACK := 4.
Definition L_PUBREC := 5.   Definition L_PUBREL := 6.   Definition L_PUBCOMP := 7.  Definition L_SUBSCRIBE := 8.
Definition L_SUBACK := 9.   Definition L_UNSUBSCRIBE := 10. Definition L_UNSUBACK := 11. Definition L_DISCONNECT := 14.
Definition L_AUTH := 15.    Definition L_WILL := 16.
Definition ALL_LOCS : list N := [1; 2; 3; 4; 5; 6; 7; 8; 9; 10; 11; 14; 15; 16].

Definition memn (x : N) (l : list N) : bool := existsb (N.eqb x) l.

(* Table 2-4, column "Packet / Will Properties", row by row *)
Definition locs_of_prop (id : N) : list N :=
  if id =? 1 then [L_PUBLISH; L_WILL]                      (* Payload Format Indicator *)
  else if id =? 2 then [L_PUBLISH; L_WILL]                 (* Message Expiry Interval *)
  else if id =? 3 then [L_PUBLISH; L_WILL]                 (* Content Type *)
  else if id =? 8 then [L_PUBLISH; L_WILL]                 (* Response Topic *)
  else if id =? 9 then [L_PUBLISH; L_WILL]                 (* Correlation Data *)
  else if id =? 11 then [L_PUBLISH; L_SUBSCRIBE]           (* Subscription Identifier *)
  else if id =? 17 then [L_CONNECT; L_CONNACK; L_DISCONNECT] (* Session Expiry Interval *)
  else if id =? 18 then [L_CONNACK]                        (* Assigned Client Identifier *)
  else if id =? 19 then [L_CONNACK]                        (* Server Keep Alive *)
  else if id =? 21 then [L_CONNECT; L_CONNACK; L_AUTH]     (* Authentication Method *)
  else if id =? 22 then [L_CONNECT; L_CONNACK; L_AUTH]     (* Authentication Data *)
  else if id =? 23 then [L_CONNECT]                        (* Request Problem Information *)
  else if id =? 24 then [L_WILL]                           (* Will Delay Interval *)
  else if id =? 25 then [L_CONNECT]                        (* Request Response Information *)
  else if id =? 26 then [L_CONNACK]                        (* Response Information *)
  else if id =? 28 then [L_CONNACK; L_DISCONNECT]          (* Server Reference *)
  else if id =? 31 then [L_CONNACK; L_PUBACK; L_PUBREC; L_PUBREL; L_PUBCOMP; L_SUBACK; L_UNSUBACK; L_DISCONNECT; L_AUTH]
  else if id =? 33 then [L_CONNECT; L_CONNACK]             (* Receive Maximum *)
  else if id =? 34 then [L_CONNECT; L_CONNACK]             (* Topic Alias Maximum *)
  else if id =? 35 then [L_PUBLISH]                        (* Topic Alias *)
  else if id =? 36 then [L_CONNACK]                        (* Maximum QoS *)
  else if id =? 37 then [L_CONNACK]                        (* Retain Available *)
  else if id =? 38 then ALL_LOCS                           (* User Property *)
  else if id =? 39 then [L_CONNECT; L_CONNACK]             (* Maximum Packet Size *)
  else if id =? 40 then [L_CONNACK]                        (* Wildcard Subscription Available *)
  else if id =? 41 then [L_CONNACK]                        (* Subscription Identifier Available *)
  else if id =? 42 then [L_CONNACK]                        (* Shared Subscription Available *)
  else [].

Definition prop_allowed (loc id : N) : bool := memn loc (locs_of_prop id).
(* "It is a Protocol Error to include ... more than once": everything except User Property, and
   Subscription Identifier in PUBLISH (3.3.2.3.8: multiple Subscription Identifiers) *)
Definition prop_repeatable (loc id : N) : bool := (id =? 38) || ((id =? 11) && (loc =? L_PUBLISH)).

Definition count_id (id : N) (ids : list N) : N := N.of_nat (length (filter (N.eqb id) ids)).

(* placement and multiplicity of a whole property list, any length *)
Definition placement_ok (loc : N) (ids : list N) : bool :=
  forallb (fun id => prop_allowed loc id && (prop_repeatable loc id || (count_id id ids <=? 1))) ids.

(* 4.12 / 3.15.2.2: Authentication Data without Authentication Method is a protocol error *)
Definition auth_dep_ok (ids : list N) : bool := negb (memn 22 ids) || memn 21 ids.

Definition props_valid (loc : N) (ps : list prop) : bool :=
  forallb prop_ok ps && placement_ok loc (map p_id ps).
