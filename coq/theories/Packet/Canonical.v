(* C04: whatever the reference decoder accepts is the canonical encoding of the result — for every
   byte list (primitives, properties, property blocks). *)
From Coq Require Import ZArith ZifyBool ZifyN ZifyNat.
From MQ Require Import Base.Prelude Packet.Prim Packet.PrimProofs Packet.Props Packet.PropsProofs.
Ltac Zify.zify_post_hook ::= Z.div_mod_to_equations.

Lemma all_bytes_app a b : all_bytes (a ++ b) = all_bytes a && all_bytes b.
Proof. unfold all_bytes. apply forallb_app. Qed.

Lemma u8_canonical l n t : dec_u8 l = Some (n, t) -> l = [n] ++ t.
Proof. destruct l; cbn; [discriminate|]. intro H; inversion H; reflexivity. Qed.

Lemma u16_canonical l n t : all_bytes l = true -> dec_u16 l = Some (n, t) -> l = enc_u16 n ++ t /\ n < 65536.
Proof.
  destruct l as [|a [|b l]]; cbn [dec_u16]; try discriminate. unfold all_bytes, is_byte. cbn [forallb].
  intros Hb H. inversion H; subst. apply andb_true_iff in Hb as [Ha Hb]. apply andb_true_iff in Hb as [Hb _].
  unfold enc_u16. cbn [app]. split; [f_equal; [lia|f_equal; lia]|lia].
Qed.

Lemma u32_canonical l n t : all_bytes l = true -> dec_u32 l = Some (n, t) -> l = enc_u32 n ++ t /\ n < 4294967296.
Proof.
  destruct l as [|a [|b [|c [|d l]]]]; cbn [dec_u32]; try discriminate. unfold all_bytes, is_byte. cbn [forallb].
  intros Hb H. inversion H; subst.
  apply andb_true_iff in Hb as [Ha Hb]. apply andb_true_iff in Hb as [Hb Hc]. apply andb_true_iff in Hc as [Hc Hd].
  apply andb_true_iff in Hd as [Hd _].
  unfold enc_u32. cbn [app]. split; [f_equal; [lia|f_equal; [lia|f_equal; [lia|f_equal; lia]]]|lia].
Qed.

Lemma str_canonical l s t : all_bytes l = true -> dec_str l = Some (s, t) -> l = enc_lp s ++ t /\ str_ok s = true.
Proof.
  unfold dec_str. intro Hb. destruct (dec_lp l) as [[s' t']|] eqn:E; [|discriminate].
  destruct (utf8_valid s') eqn:Eu; [|discriminate]. intro H; inversion H; subst.
  destruct (lp_canonical l s t Hb E) as [Hl Hn]. split; [exact Hl|].
  unfold str_ok. rewrite Eu, andb_true_r. apply andb_true_iff. split; [|lia].
  rewrite Hl in Hb. unfold enc_lp in Hb. rewrite !all_bytes_app in Hb.
  apply andb_true_iff in Hb as [Hb _]. now apply andb_true_iff in Hb as [_ Hb].
Qed.

Lemma bin_canonical l s t : all_bytes l = true -> dec_lp l = Some (s, t) -> l = enc_lp s ++ t /\ bin_ok s = true.
Proof.
  intros Hb E. destruct (lp_canonical l s t Hb E) as [Hl Hn]. split; [exact Hl|].
  unfold bin_ok. apply andb_true_iff. split; [|lia].
  rewrite Hl in Hb. unfold enc_lp in Hb. rewrite !all_bytes_app in Hb.
  apply andb_true_iff in Hb as [Hb _]. now apply andb_true_iff in Hb as [_ Hb].
Qed.

Lemma suffix_bytes l a t : l = a ++ t -> all_bytes l = true -> all_bytes t = true.
Proof. intros -> H. rewrite all_bytes_app in H. now apply andb_true_iff in H as [_ H]. Qed.

(* a property value *)
Lemma pval_canonical sh l v t :
  all_bytes l = true -> dec_pval sh l = Some (v, t) -> l = enc_pval v ++ t.
Proof.
  intro Hb. unfold dec_pval.
  destruct (sh =? 0).
  { destruct (dec_u8 l) as [[x t']|] eqn:E; [|discriminate]. intro H; inversion H; subst. now apply u8_canonical. }
  destruct (sh =? 1).
  { destruct (dec_u16 l) as [[x t']|] eqn:E; [|discriminate]. intro H; inversion H; subst. now apply (u16_canonical l x t Hb). }
  destruct (sh =? 2).
  { destruct (dec_u32 l) as [[x t']|] eqn:E; [|discriminate]. intro H; inversion H; subst. now apply (u32_canonical l x t Hb). }
  destruct (sh =? 3).
  { destruct (vbi_dec l) as [[x t']|] eqn:E; [|discriminate]. intro H; inversion H; subst. now apply (vbi_dec_canonical l x t Hb). }
  destruct (sh =? 4).
  { destruct (dec_str l) as [[x t']|] eqn:E; [|discriminate]. intro H; inversion H; subst. now apply (str_canonical l x t Hb). }
  destruct (sh =? 5).
  { destruct (dec_lp l) as [[x t']|] eqn:E; [|discriminate]. intro H; inversion H; subst. now apply (lp_canonical l x t Hb). }
  destruct (dec_str l) as [[k t1]|] eqn:E1; [|discriminate].
  destruct (dec_str t1) as [[w t2]|] eqn:E2; [|discriminate]. intro H; inversion H; subst.
  destruct (str_canonical l k t1 Hb E1) as [H1 _].
  destruct (str_canonical t1 w t (suffix_bytes _ _ _ H1 Hb) E2) as [H2 _].
  cbn [enc_pval]. rewrite <- app_assoc, <- H2. exact H1.
Qed.

Lemma shape_of_id_range id sh : shape_of_id id = Some sh -> sh <= 6.
Proof.
  unfold shape_of_id. repeat match goal with |- context [if ?b then _ else _] => destruct b end;
    intro H; inversion H; lia.
Qed.

Theorem prop_canonical l p t : all_bytes l = true -> dec_prop l = Some (p, t) -> l = enc_prop p ++ t /\ prop_ok p = true.
Proof.
  intro Hb. unfold dec_prop. destruct l as [|id l']; [discriminate|].
  destruct (shape_of_id id) as [sh|] eqn:Es; [|discriminate].
  destruct (dec_pval sh l') as [[v t']|] eqn:E; [|discriminate].
  destruct (value_ok id v) eqn:Ev; [|discriminate]. intro H; inversion H; subst.
  assert (Hb' : all_bytes l' = true) by (unfold all_bytes in *; cbn [forallb] in Hb; now apply andb_true_iff in Hb as [_ Hb]).
  pose proof (pval_canonical sh l' v t Hb' E) as Hl. split.
  - unfold enc_prop. cbn [p_id p_val app]. now rewrite Hl.
  - unfold prop_ok. cbn [p_id p_val]. rewrite Es, Ev, andb_true_r.
    (* the shape of the decoded value is the shape of the identifier *)
    pose proof (shape_of_id_range id sh Es) as Hrange. unfold dec_pval in E.
    repeat match type of E with (if ?b then _ else _) = _ => destruct b eqn:? end;
      repeat match type of E with match ?x with Some _ => _ | None => _ end = _ => destruct x as [[? ?]|]; [|discriminate] end;
      try (destruct (dec_str _) as [[? ?]|]; [|discriminate]);
      inversion E; subst; cbn [shape_of_val]; lia.
Qed.

Lemma props_body_canonical fuel : forall l ps,
  all_bytes l = true -> dec_props_body fuel l = Some ps -> l = enc_props_body ps /\ forallb prop_ok ps = true.
Proof.
  induction fuel as [|f IH]; intros l ps Hb; cbn [dec_props_body].
  - destruct l; [|discriminate]. intro H; inversion H; subst. split; reflexivity.
  - destruct l as [|x l'] eqn:El; [intro H; inversion H; subst; split; reflexivity|]. rewrite <- El in *.
    destruct (dec_prop l) as [[p t]|] eqn:E; [|discriminate].
    destruct (dec_props_body f t) as [ps'|] eqn:E2; [|discriminate]. intro H; inversion H; subst ps.
    destruct (prop_canonical l p t Hb E) as [Hl Hp].
    destruct (IH t ps' (suffix_bytes _ _ _ Hl Hb) E2) as [Ht Hps].
    split; [unfold enc_props_body in *; cbn [flat_map]; rewrite <- Ht; exact Hl|cbn [forallb]; now rewrite Hp, Hps].
Qed.

(* a property block: accepted bytes = length (minimal Variable Byte Integer) + canonical properties *)
Theorem props_canonical l ps t :
  all_bytes l = true -> dec_props l = Some (ps, t) ->
  l = enc_props ps ++ t /\ forallb prop_ok ps = true /\ N.of_nat (length (enc_props_body ps)) <= VBI_MAX.
Proof.
  intro Hb. unfold dec_props. destruct (vbi_dec l) as [[n r]|] eqn:E; [|discriminate].
  destruct (N.of_nat (length r) <? n) eqn:En; [discriminate|].
  destruct (dec_props_body (N.to_nat n) (firstn (N.to_nat n) r)) as [ps'|] eqn:E2; [|discriminate].
  intro H; inversion H; subst. destruct (vbi_dec_canonical l n r Hb E) as [Hl Hn].
  assert (Hr : all_bytes r = true) by (apply (suffix_bytes _ _ _ Hl Hb)).
  assert (Hf : all_bytes (firstn (N.to_nat n) r) = true).
  { rewrite <- (firstn_skipn (N.to_nat n) r) in Hr. rewrite all_bytes_app in Hr. now apply andb_true_iff in Hr as [Hr _]. }
  destruct (props_body_canonical _ _ _ Hf E2) as [Hbody Hok].
  assert (Hlen : length (enc_props_body ps) = N.to_nat n).
  { rewrite <- Hbody, firstn_length. lia. }
  split; [|split; [exact Hok|lia]].
  unfold enc_props. cbv zeta. rewrite Hlen, N2Nat.id, <- app_assoc, <- Hbody, firstn_skipn. exact Hl.
Qed.
