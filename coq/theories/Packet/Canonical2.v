(* C04: packet-level canonicity — every control packet the reference decoder accepts IS the
   reference encoding of the decoded field values, for every byte list. *)
From Coq Require Import ZArith ZifyBool ZifyN ZifyNat.
From MQ Require Import Base.Prelude Packet.Prim Packet.PrimProofs Packet.Props Packet.PropsProofs Packet.Packets
                       Packet.Decode Packet.RoundTrip Packet.Canonical.
Ltac Zify.zify_post_hook ::= Z.div_mod_to_equations.

Lemma pid_canonical idw l n t : all_bytes l = true -> dec_pid idw l = Some (n, t) -> l = enc_pid idw n ++ t.
Proof.
  unfold dec_pid, enc_pid. destruct (idw =? 4); intros Hb H;
    [now apply (u32_canonical l n t Hb)|now apply (u16_canonical l n t Hb)].
Qed.

Lemma vprops_canonical v l ps t : all_bytes l = true -> dec_vprops v l = Some (ps, t) -> l = opt_props v ps ++ t.
Proof.
  unfold dec_vprops, opt_props. destruct (is_v5 v); intros Hb H.
  - now apply (props_canonical l ps t Hb).
  - inversion H; subst. reflexivity.
Qed.

Lemma tail_canonical l tl : all_bytes l = true -> dec_tail l = Some tl -> enc_tail tl = l.
Proof.
  intro Hb. unfold dec_tail, enc_tail. destruct l as [|rc t]; [intro H; inversion H; reflexivity|].
  destruct t as [|x t'] eqn:Et; [intro H; inversion H; reflexivity|]. rewrite <- Et in *.
  destruct (dec_props t) as [[ps r]|] eqn:E; [|discriminate]. destruct r; [|discriminate].
  intro H; inversion H; subst tl. cbn [t_rc t_props].
  assert (Hb' : all_bytes t = true) by (unfold all_bytes in *; cbn [forallb] in Hb; now apply andb_true_iff in Hb as [_ Hb]).
  destruct (props_canonical t ps [] Hb' E) as [Hl _]. rewrite app_nil_r in Hl. now rewrite <- Hl.
Qed.

Lemma entries_canonical fuel : forall l es,
  all_bytes l = true -> dec_entries fuel l = Some es -> flat_map (fun e => enc_lp (fst e) ++ [snd e]) es = l.
Proof.
  induction fuel as [|f IH]; intros l es Hb; cbn [dec_entries].
  - destruct l; [|discriminate]. intro H; inversion H; reflexivity.
  - destruct l as [|x l'] eqn:El; [intro H; inversion H; reflexivity|]. rewrite <- El in *.
    destruct (dec_str l) as [[s t]|] eqn:E; cbn [obind]; [|discriminate].
    destruct t as [|o t']; [discriminate|].
    destruct (dec_entries f t') as [es'|] eqn:E2; cbn [obind]; [|discriminate]. intro H; inversion H; subst es.
    destruct (str_canonical l s (o :: t') Hb E) as [Hl _].
    assert (Hb2 : all_bytes t' = true).
    { pose proof (suffix_bytes _ _ _ Hl Hb) as H0. unfold all_bytes in *. cbn [forallb] in H0. now apply andb_true_iff in H0 as [_ H0]. }
    cbn [flat_map fst snd]. rewrite (IH t' es' Hb2 E2), <- app_assoc. cbn [app]. now rewrite <- Hl.
Qed.

Lemma filters_canonical fuel : forall l fs,
  all_bytes l = true -> dec_filters fuel l = Some fs -> flat_map enc_lp fs = l.
Proof.
  induction fuel as [|f IH]; intros l fs Hb; cbn [dec_filters].
  - destruct l; [|discriminate]. intro H; inversion H; reflexivity.
  - destruct l as [|x l'] eqn:El; [intro H; inversion H; reflexivity|]. rewrite <- El in *.
    destruct (dec_str l) as [[s t]|] eqn:E; cbn [obind]; [|discriminate].
    destruct (dec_filters f t) as [fs'|] eqn:E2; cbn [obind]; [|discriminate]. intro H; inversion H; subst fs.
    destruct (str_canonical l s t Hb E) as [Hl _].
    cbn [flat_map]. rewrite (IH t fs' (suffix_bytes _ _ _ Hl Hb) E2). now rewrite <- Hl.
Qed.

(* fixed-header flags of PUBLISH: the nibble is rebuilt from its three fields *)
Lemma publish_flags_rebuild fl :
  fl < 16 -> (if bit fl 3 then 8 else 0) + ((fl / 2) mod 4) * 2 + (if bit fl 0 then 1 else 0) = fl.
Proof.
  intro H.
  assert (Hc : fl = 0 \/ fl = 1 \/ fl = 2 \/ fl = 3 \/ fl = 4 \/ fl = 5 \/ fl = 6 \/ fl = 7 \/ fl = 8 \/ fl = 9 \/ fl = 10 \/
               fl = 11 \/ fl = 12 \/ fl = 13 \/ fl = 14 \/ fl = 15) by lia.
  repeat (destruct Hc as [->|Hc]; [vm_compute; reflexivity|]). subst. vm_compute. reflexivity.
Qed.

(* CONNECT flags byte: rebuilt from the decoded fields, for all 256 values *)
Definition cf_rebuild (fl : N) : N :=
  (if bit fl 1 then 2 else 0)
  + (if bit fl 2 then 4 + ((fl / 8) mod 4) * 8 + (if bit fl 5 then 32 else 0) else 0)
  + (if bit fl 6 then 64 else 0) + (if bit fl 7 then 128 else 0).
Definition cf_ok (fl : N) : bool :=
  if bit fl 0 then true
  else if negb (bit fl 2) && (negb ((fl / 8) mod 4 =? 0) || bit fl 5) then true
  else cf_rebuild fl =? fl.
Lemma cf_all : forallb cf_ok (map N.of_nat (seq 0 256)) = true.
Proof. vm_compute. reflexivity. Qed.
Lemma connect_flags_rebuild fl :
  fl < 256 -> bit fl 0 = false -> (bit fl 2 = false -> (fl / 8) mod 4 = 0 /\ bit fl 5 = false) -> cf_rebuild fl = fl.
Proof.
  intros Hlt H0 Hw.
  assert (Hin : In fl (map N.of_nat (seq 0 256))).
  { apply in_map_iff. exists (N.to_nat fl). split; [lia|]. apply in_seq. lia. }
  pose proof (proj1 (forallb_forall _ _) cf_all fl Hin) as H. unfold cf_ok in H. rewrite H0 in H.
  destruct (bit fl 2) eqn:E2; cbn [negb andb] in H.
  - now apply N.eqb_eq in H.
  - destruct (Hw eq_refl) as [Hq H5]. rewrite Hq, H5 in H. cbn in H. now apply N.eqb_eq in H.
Qed.

Lemma b2n_n2b sp : sp <= 1 -> b2n (n2b sp) = sp.
Proof. intro H. assert (sp = 0 \/ sp = 1) as [->| ->] by lia; reflexivity. Qed.

Ltac ttest t k := let b := eval vm_compute in (t =? k) in change (t =? k) with b.

Lemma connack_canonical v idw r b :
  all_bytes r = true -> decode_body v idw 2 0 r = Some b -> enc_body v idw b = r /\ type_of b = 2 /\ flags_of b = 0.
Proof.
  intro Hb. unfold decode_body. ttest 2 1. ttest 2 2. cbv iota. change (0 =? 0) with true. cbn [negb].
  destruct r as [|sp [|rc rest]]; try discriminate.
  destruct (1 <? sp) eqn:Es; [discriminate|].
  destruct (dec_vprops v rest) as [[ps r']|] eqn:E; cbn [obind]; [|discriminate]. destruct r'; [|discriminate].
  intro H; inversion H; subst b.
  assert (Hb' : all_bytes rest = true).
  { unfold all_bytes in *. cbn [forallb] in Hb. apply andb_true_iff in Hb as [_ Hb]. now apply andb_true_iff in Hb as [_ Hb]. }
  pose proof (vprops_canonical v rest ps [] Hb' E) as Hl. rewrite app_nil_r in Hl.
  cbn [enc_body type_of flags_of app]. rewrite b2n_n2b by lia. rewrite <- Hl. auto.
Qed.

Lemma publish_canonical v idw fl r b :
  all_bytes r = true -> fl < 16 -> decode_body v idw 3 fl r = Some b -> enc_body v idw b = r /\ type_of b = 3 /\ flags_of b = fl.
Proof.
  intros Hb Hfl. unfold decode_body. ttest 3 1. ttest 3 2. ttest 3 3. cbv iota zeta.
  destruct (dec_str r) as [[topic r1]|] eqn:E1; cbn [obind]; [|discriminate].
  destruct (str_canonical r topic r1 Hb E1) as [H1 _]. pose proof (suffix_bytes _ _ _ H1 Hb) as Hb1.
  destruct ((fl / 2) mod 4 =? 0) eqn:Eq.
  - cbn [obind]. destruct (dec_vprops v r1) as [[ps r2]|] eqn:E3; cbn [obind]; [|discriminate].
    intro H; inversion H; subst b. pose proof (vprops_canonical v r1 ps r2 Hb1 E3) as H3.
    cbn [enc_body type_of flags_of app]. split; [rewrite <- H3; exact (eq_sym H1)|]. split; [reflexivity|apply publish_flags_rebuild; exact Hfl].
  - destruct (dec_pid idw r1) as [[i r2]|] eqn:E2; cbn [obind]; [|discriminate].
    pose proof (pid_canonical idw r1 i r2 Hb1 E2) as H2. pose proof (suffix_bytes _ _ _ H2 Hb1) as Hb2.
    destruct (dec_vprops v r2) as [[ps r3]|] eqn:E3; cbn [obind]; [|discriminate].
    intro H; inversion H; subst b. pose proof (vprops_canonical v r2 ps r3 Hb2 E3) as H3.
    cbn [enc_body type_of flags_of]. split; [rewrite <- H3, <- H2; exact (eq_sym H1)|]. split; [reflexivity|apply publish_flags_rebuild; exact Hfl].
Qed.

Lemma ack_canonical v idw t fl r b :
  all_bytes r = true -> (4 <=? t) && (t <=? 7) = true ->
  decode_body v idw t fl r = Some b -> enc_body v idw b = r /\ type_of b = t /\ flags_of b = fl.
Proof.
  intros Hb Ht. unfold decode_body.
  assert (t =? 1 = false) as -> by lia. assert (t =? 2 = false) as -> by lia. assert (t =? 3 = false) as -> by lia.
  rewrite Ht. destruct (fl =? (if t =? 6 then 2 else 0)) eqn:Ef; cbn [negb]; [|discriminate]. apply N.eqb_eq in Ef.
  destruct (dec_pid idw r) as [[pid r1]|] eqn:E1; cbn [obind]; [|discriminate].
  pose proof (pid_canonical idw r pid r1 Hb E1) as H1. pose proof (suffix_bytes _ _ _ H1 Hb) as Hb1.
  destruct (is_v5 v).
  - destruct (dec_tail r1) as [tl|] eqn:E2; cbn [obind]; [|discriminate]. intro H; inversion H; subst b.
    cbn [enc_body type_of flags_of]. rewrite (tail_canonical r1 tl Hb1 E2). auto.
  - destruct r1; [|discriminate]. intro H; inversion H; subst b. cbn [enc_body type_of flags_of enc_tail t_rc]. auto.
Qed.

Lemma subscribe_canonical v idw r b :
  all_bytes r = true -> decode_body v idw 8 2 r = Some b -> enc_body v idw b = r /\ type_of b = 8 /\ flags_of b = 2.
Proof.
  intro Hb. unfold decode_body. ttest 8 1. ttest 8 2. ttest 8 3. change ((4 <=? 8) && (8 <=? 7)) with false. ttest 8 8.
  cbv iota. change (2 =? 2) with true. cbn [negb].
  destruct (dec_pid idw r) as [[pid r1]|] eqn:E1; cbn [obind]; [|discriminate].
  pose proof (pid_canonical idw r pid r1 Hb E1) as H1. pose proof (suffix_bytes _ _ _ H1 Hb) as Hb1.
  destruct (dec_vprops v r1) as [[ps r2]|] eqn:E2; cbn [obind]; [|discriminate].
  pose proof (vprops_canonical v r1 ps r2 Hb1 E2) as H2. pose proof (suffix_bytes _ _ _ H2 Hb1) as Hb2.
  destruct (dec_entries (length r2) r2) as [es|] eqn:E3; cbn [obind]; [|discriminate]. intro H; inversion H; subst b.
  cbn [enc_body type_of flags_of]. rewrite (entries_canonical _ r2 es Hb2 E3), <- H2. auto.
Qed.

Lemma unsubscribe_canonical v idw r b :
  all_bytes r = true -> decode_body v idw 10 2 r = Some b -> enc_body v idw b = r /\ type_of b = 10 /\ flags_of b = 2.
Proof.
  intro Hb. unfold decode_body. ttest 10 1. ttest 10 2. ttest 10 3. change ((4 <=? 10) && (10 <=? 7)) with false. ttest 10 8.
  ttest 10 9. ttest 10 10. cbv iota. change (2 =? 2) with true. cbn [negb].
  destruct (dec_pid idw r) as [[pid r1]|] eqn:E1; cbn [obind]; [|discriminate].
  pose proof (pid_canonical idw r pid r1 Hb E1) as H1. pose proof (suffix_bytes _ _ _ H1 Hb) as Hb1.
  destruct (dec_vprops v r1) as [[ps r2]|] eqn:E2; cbn [obind]; [|discriminate].
  pose proof (vprops_canonical v r1 ps r2 Hb1 E2) as H2. pose proof (suffix_bytes _ _ _ H2 Hb1) as Hb2.
  destruct (dec_filters (length r2) r2) as [fs|] eqn:E3; cbn [obind]; [|discriminate]. intro H; inversion H; subst b.
  cbn [enc_body type_of flags_of]. rewrite (filters_canonical _ r2 fs Hb2 E3), <- H2. auto.
Qed.

Lemma suback_like_canonical v idw t r b :
  all_bytes r = true -> t = 9 \/ t = 11 ->
  decode_body v idw t 0 r = Some b -> enc_body v idw b = r /\ type_of b = t /\ flags_of b = 0.
Proof.
  intros Hb [-> | ->]; unfold decode_body.
  - ttest 9 1. ttest 9 2. ttest 9 3. change ((4 <=? 9) && (9 <=? 7)) with false. ttest 9 8. ttest 9 9. cbv iota.
    change (0 =? 0) with true. cbn [negb].
    destruct (dec_pid idw r) as [[pid r1]|] eqn:E1; cbn [obind]; [|discriminate].
    pose proof (pid_canonical idw r pid r1 Hb E1) as H1. pose proof (suffix_bytes _ _ _ H1 Hb) as Hb1.
    destruct (dec_vprops v r1) as [[ps r2]|] eqn:E2; cbn [obind]; [|discriminate].
    pose proof (vprops_canonical v r1 ps r2 Hb1 E2) as H2. intro H; inversion H; subst b.
    cbn [enc_body type_of flags_of]. rewrite <- H2. auto.
  - ttest 11 1. ttest 11 2. ttest 11 3. change ((4 <=? 11) && (11 <=? 7)) with false. ttest 11 8. ttest 11 9. ttest 11 10.
    ttest 11 11. cbv iota. change (0 =? 0) with true. cbn [negb].
    destruct (dec_pid idw r) as [[pid r1]|] eqn:E1; cbn [obind]; [|discriminate].
    pose proof (pid_canonical idw r pid r1 Hb E1) as H1. pose proof (suffix_bytes _ _ _ H1 Hb) as Hb1.
    destruct (dec_vprops v r1) as [[ps r2]|] eqn:E2; cbn [obind]; [|discriminate].
    pose proof (vprops_canonical v r1 ps r2 Hb1 E2) as H2. intro H; inversion H; subst b.
    cbn [enc_body type_of flags_of]. rewrite <- H2. auto.
Qed.

Lemma tailed_canonical v idw t r b :
  all_bytes r = true -> t = 14 \/ t = 15 ->
  decode_body v idw t 0 r = Some b -> enc_body v idw b = r /\ type_of b = t /\ flags_of b = 0.
Proof.
  intros Hb [-> | ->]; unfold decode_body.
  - ttest 14 1. ttest 14 2. ttest 14 3. change ((4 <=? 14) && (14 <=? 7)) with false. ttest 14 8. ttest 14 9. ttest 14 10.
    ttest 14 11. ttest 14 12. ttest 14 13. ttest 14 14. cbv iota. change (0 =? 0) with true. cbn [negb].
    destruct (is_v5 v).
    + destruct (dec_tail r) as [tl|] eqn:E; cbn [obind]; [|discriminate]. intro H; inversion H; subst b.
      cbn [enc_body type_of flags_of]. rewrite (tail_canonical r tl Hb E). auto.
    + destruct r; [|discriminate]. intro H; inversion H; subst b. cbn. auto.
  - ttest 15 1. ttest 15 2. ttest 15 3. change ((4 <=? 15) && (15 <=? 7)) with false. ttest 15 8. ttest 15 9. ttest 15 10.
    ttest 15 11. ttest 15 12. ttest 15 13. ttest 15 14. ttest 15 15. cbv iota. change (0 =? 0) with true. cbn [negb orb].
    destruct (is_v5 v); cbn [negb]; [|discriminate].
    destruct (dec_tail r) as [tl|] eqn:E; cbn [obind]; [|discriminate]. intro H; inversion H; subst b.
    cbn [enc_body type_of flags_of]. rewrite (tail_canonical r tl Hb E). auto.
Qed.

Lemma bit_lt256 fl : all_bytes [fl] = true -> fl < 256.
Proof. unfold all_bytes, is_byte. cbn [forallb]. lia. Qed.

Lemma connect_canonical v idw r b :
  all_bytes r = true -> decode_body v idw 1 0 r = Some b -> enc_body v idw b = r /\ type_of b = 1 /\ flags_of b = 0.
Proof.
  intro Hb. unfold decode_body. ttest 1 1. cbv iota. change (0 =? 0) with true. cbv iota. unfold dec_connect.
  destruct r as [|b0 [|b1 [|b2 [|b3 [|b4 [|b5 [|lv [|fl t]]]]]]]]; try discriminate.
  destruct (nlist_eqb _ _) eqn:Eh; cbn [negb]; [|discriminate]. apply nlist_eqb_eq in Eh. inversion Eh; subst. clear Eh.
  assert (Hfl : fl < 256 /\ all_bytes t = true).
  { unfold all_bytes, is_byte in *. cbn [forallb] in Hb. repeat (apply andb_true_iff in Hb as [? Hb]). split; [lia|exact Hb]. }
  destruct Hfl as [Hfl Hbt].
  destruct (bit fl 0) eqn:B0; [discriminate|].
  destruct (dec_u16 t) as [[ka t1]|] eqn:E1; cbn [obind]; [|discriminate].
  destruct (u16_canonical t ka t1 Hbt E1) as [H1 _]. pose proof (suffix_bytes _ _ _ H1 Hbt) as Hb1.
  destruct (dec_vprops v t1) as [[ps t2]|] eqn:E2; cbn [obind]; [|discriminate].
  pose proof (vprops_canonical v t1 ps t2 Hb1 E2) as H2. pose proof (suffix_bytes _ _ _ H2 Hb1) as Hb2.
  destruct (dec_str t2) as [[cid t3]|] eqn:E3; cbn [obind]; [|discriminate].
  destruct (str_canonical t2 cid t3 Hb2 E3) as [H3 _]. pose proof (suffix_bytes _ _ _ H3 Hb2) as Hb3.
  (* will *)
  assert (HW : forall w t4,
             (if bit fl 2 then
                do '(wps, t) <- dec_vprops v t3; do '(wt, t) <- dec_str t; do '(wp, t) <- dec_lp t;
                Some (Some (mkWill ((fl / 8) mod 4) (bit fl 5) wps wt wp), t)
              else if negb ((fl / 8) mod 4 =? 0) || bit fl 5 then None else Some (None, t3)) = Some (w, t4) ->
             t3 = match w with Some x => enc_will v x | None => [] end ++ t4 /\ all_bytes t4 = true /\
             (if bit fl 2 then 4 + ((fl / 8) mod 4) * 8 + (if bit fl 5 then 32 else 0) else 0)
             = match w with Some x => 4 + w_qos x * 8 + (if w_retain x then 32 else 0) | None => 0 end /\
             (bit fl 2 = false -> (fl / 8) mod 4 = 0 /\ bit fl 5 = false)).
  { intros w t4. destruct (bit fl 2) eqn:B2.
    - destruct (dec_vprops v t3) as [[wps u1]|] eqn:W1; cbn [obind]; [|discriminate].
      pose proof (vprops_canonical v t3 wps u1 Hb3 W1) as K1. pose proof (suffix_bytes _ _ _ K1 Hb3) as Kb1.
      destruct (dec_str u1) as [[wt u2]|] eqn:W2; cbn [obind]; [|discriminate].
      destruct (str_canonical u1 wt u2 Kb1 W2) as [K2 _]. pose proof (suffix_bytes _ _ _ K2 Kb1) as Kb2.
      destruct (dec_lp u2) as [[wp u3]|] eqn:W3; cbn [obind]; [|discriminate].
      destruct (lp_canonical u2 wp u3 Kb2 W3) as [K3 _]. pose proof (suffix_bytes _ _ _ K3 Kb2) as Kb3.
      intro H. injection H as Hw Ht4. rewrite <- Hw, <- Ht4. unfold enc_will. cbn [w_props w_topic w_payload w_qos w_retain].
      split; [rewrite <- !app_assoc, <- K3, <- K2; exact K1|]. split; [exact Kb3|]. split; [reflexivity|discriminate].
    - destruct (negb ((fl / 8) mod 4 =? 0) || bit fl 5) eqn:Eq; [discriminate|].
      intro H. injection H as Hw Ht4. rewrite <- Hw, <- Ht4. apply orb_false_iff in Eq as [Q1 Q2]. apply negb_false_iff in Q1. apply N.eqb_eq in Q1.
      split; [reflexivity|]. split; [exact Hb3|]. split; [reflexivity|]. intros _. auto. }
  match goal with |- obind ?X _ = _ -> _ => destruct X as [[w t4]|] eqn:EW end; cbn [obind]; [|discriminate].
  destruct (HW w t4 eq_refl) as (H4 & Hb4 & Hwf & Hnw). clear HW.
  (* user name, password *)
  destruct (bit fl 7) eqn:B7.
  - destruct (dec_str t4) as [[u t5]|] eqn:E5; cbn [obind]; [|discriminate].
    destruct (str_canonical t4 u t5 Hb4 E5) as [H5 _]. pose proof (suffix_bytes _ _ _ H5 Hb4) as Hb5.
    destruct (bit fl 6) eqn:B6.
    + destruct (dec_lp t5) as [[pw t6]|] eqn:E6; cbn [obind]; [|discriminate].
      destruct (lp_canonical t5 pw t6 Hb5 E6) as [H6 _]. destruct t6; [|discriminate]. intro H; inversion H; subst b.
      cbn [enc_body type_of flags_of]. split; [|auto].
      assert (Hcf : connect_flags (bit fl 1) w (Some u) (Some pw) = fl).
      { unfold connect_flags. rewrite <- Hwf. pose proof (connect_flags_rebuild fl Hfl B0 Hnw) as R. unfold cf_rebuild in R.
        rewrite B7, B6 in R. lia. }
      rewrite Hcf. cbn [app]. rewrite app_nil_r in H6. rewrite <- H6, <- H5, <- H4, <- H3, <- H2. cbn [app]. now rewrite <- H1.
    + cbn [obind]. destruct t5; [|discriminate]. intro H; inversion H; subst b.
      cbn [enc_body type_of flags_of]. split; [|auto].
      assert (Hcf : connect_flags (bit fl 1) w (Some u) None = fl).
      { unfold connect_flags. rewrite <- Hwf. pose proof (connect_flags_rebuild fl Hfl B0 Hnw) as R. unfold cf_rebuild in R.
        rewrite B7, B6 in R. lia. }
      rewrite Hcf. cbn [app]. rewrite app_nil_r in H5. rewrite app_nil_r, <- H5, <- H4, <- H3, <- H2. cbn [app]. now rewrite <- H1.
  - cbn [obind]. destruct (bit fl 6) eqn:B6.
    + destruct (dec_lp t4) as [[pw t6]|] eqn:E6; cbn [obind]; [|discriminate].
      destruct (lp_canonical t4 pw t6 Hb4 E6) as [H6 _]. destruct t6; [|discriminate]. intro H; inversion H; subst b.
      cbn [enc_body type_of flags_of]. split; [|auto].
      assert (Hcf : connect_flags (bit fl 1) w None (Some pw) = fl).
      { unfold connect_flags. rewrite <- Hwf. pose proof (connect_flags_rebuild fl Hfl B0 Hnw) as R. unfold cf_rebuild in R.
        rewrite B7, B6 in R. lia. }
      rewrite Hcf. cbn [app]. rewrite app_nil_r in H6. rewrite <- H6, <- H4, <- H3, <- H2. cbn [app]. now rewrite <- H1.
    + cbn [obind]. destruct t4; [|discriminate]. intro H; inversion H; subst b.
      cbn [enc_body type_of flags_of]. split; [|auto].
      assert (Hcf : connect_flags (bit fl 1) w None None = fl).
      { unfold connect_flags. rewrite <- Hwf. pose proof (connect_flags_rebuild fl Hfl B0 Hnw) as R. unfold cf_rebuild in R.
        rewrite B7, B6 in R. lia. }
      rewrite Hcf. cbn [app]. rewrite app_nil_r in H4. rewrite !app_nil_r, <- H4, <- H3, <- H2. cbn [app]. now rewrite <- H1.
Qed.

Lemma pings_canonical v idw t r b :
  t = 12 \/ t = 13 -> decode_body v idw t 0 r = Some b -> enc_body v idw b = r /\ type_of b = t /\ flags_of b = 0.
Proof.
  intros [-> | ->]; unfold decode_body.
  - ttest 12 1. ttest 12 2. ttest 12 3. change ((4 <=? 12) && (12 <=? 7)) with false. ttest 12 8. ttest 12 9. ttest 12 10.
    ttest 12 11. ttest 12 12. cbv iota. destruct r; [|discriminate]. intro H; inversion H; subst. cbn. auto.
  - ttest 13 1. ttest 13 2. ttest 13 3. change ((4 <=? 13) && (13 <=? 7)) with false. ttest 13 8. ttest 13 9. ttest 13 10.
    ttest 13 11. ttest 13 12. ttest 13 13. cbv iota. destruct r; [|discriminate]. intro H; inversion H; subst. cbn. auto.
Qed.

(* every kind *)
Lemma body_canonical v idw t fl r b :
  all_bytes r = true -> fl < 16 -> decode_body v idw t fl r = Some b ->
  enc_body v idw b = r /\ type_of b = t /\ flags_of b = fl.
Proof.
  intros Hb Hfl H.
  assert (Hcases : t = 1 \/ t = 2 \/ t = 3 \/ ((4 <=? t) && (t <=? 7) = true) \/ t = 8 \/ t = 9 \/ t = 10 \/ t = 11 \/ t = 12 \/
                   t = 13 \/ t = 14 \/ t = 15 \/ (t = 0 \/ 16 <= t)) by lia.
  destruct Hcases as [->|[->|[->|[Hr|[->|[->|[->|[->|[->|[->|[->|[->|Hout]]]]]]]]]]]].
  - (* CONNECT: flags must be 0 *)
    assert (fl = 0).
    { unfold decode_body in H. revert H. ttest 1 1. cbv iota. destruct (fl =? 0) eqn:E; [intros _; now apply N.eqb_eq in E|discriminate]. }
    subst fl. now apply connect_canonical.
  - assert (fl = 0).
    { unfold decode_body in H. revert H. ttest 2 1. ttest 2 2. cbv iota. destruct (fl =? 0) eqn:E; cbn [negb]; [intros _; now apply N.eqb_eq in E|discriminate]. }
    subst fl. now apply connack_canonical.
  - now apply publish_canonical.
  - now apply ack_canonical.
  - assert (fl = 2).
    { unfold decode_body in H. revert H. ttest 8 1. ttest 8 2. ttest 8 3. change ((4 <=? 8) && (8 <=? 7)) with false. ttest 8 8. cbv iota.
      destruct (fl =? 2) eqn:E; cbn [negb]; [intros _; now apply N.eqb_eq in E|discriminate]. }
    subst fl. now apply subscribe_canonical.
  - assert (fl = 0).
    { unfold decode_body in H. revert H. ttest 9 1. ttest 9 2. ttest 9 3. change ((4 <=? 9) && (9 <=? 7)) with false. ttest 9 8. ttest 9 9. cbv iota.
      destruct (fl =? 0) eqn:E; cbn [negb]; [intros _; now apply N.eqb_eq in E|discriminate]. }
    subst fl. apply suback_like_canonical; auto.
  - assert (fl = 2).
    { unfold decode_body in H. revert H. ttest 10 1. ttest 10 2. ttest 10 3. change ((4 <=? 10) && (10 <=? 7)) with false. ttest 10 8.
      ttest 10 9. ttest 10 10. cbv iota. destruct (fl =? 2) eqn:E; cbn [negb]; [intros _; now apply N.eqb_eq in E|discriminate]. }
    subst fl. now apply unsubscribe_canonical.
  - assert (fl = 0).
    { unfold decode_body in H. revert H. ttest 11 1. ttest 11 2. ttest 11 3. change ((4 <=? 11) && (11 <=? 7)) with false. ttest 11 8.
      ttest 11 9. ttest 11 10. ttest 11 11. cbv iota. destruct (fl =? 0) eqn:E; cbn [negb]; [intros _; now apply N.eqb_eq in E|discriminate]. }
    subst fl. apply suback_like_canonical; auto.
  - assert (fl = 0).
    { unfold decode_body in H. revert H. ttest 12 1. ttest 12 2. ttest 12 3. change ((4 <=? 12) && (12 <=? 7)) with false. ttest 12 8.
      ttest 12 9. ttest 12 10. ttest 12 11. ttest 12 12. cbv iota. destruct fl; [reflexivity|discriminate]. }
    subst fl. apply pings_canonical; auto.
  - assert (fl = 0).
    { unfold decode_body in H. revert H. ttest 13 1. ttest 13 2. ttest 13 3. change ((4 <=? 13) && (13 <=? 7)) with false. ttest 13 8.
      ttest 13 9. ttest 13 10. ttest 13 11. ttest 13 12. ttest 13 13. cbv iota. destruct fl; [reflexivity|discriminate]. }
    subst fl. apply pings_canonical; auto.
  - assert (fl = 0).
    { unfold decode_body in H. revert H. ttest 14 1. ttest 14 2. ttest 14 3. change ((4 <=? 14) && (14 <=? 7)) with false. ttest 14 8.
      ttest 14 9. ttest 14 10. ttest 14 11. ttest 14 12. ttest 14 13. ttest 14 14. cbv iota.
      destruct (fl =? 0) eqn:E; cbn [negb]; [intros _; now apply N.eqb_eq in E|discriminate]. }
    subst fl. apply tailed_canonical; auto.
  - assert (fl = 0).
    { unfold decode_body in H. revert H. ttest 15 1. ttest 15 2. ttest 15 3. change ((4 <=? 15) && (15 <=? 7)) with false. ttest 15 8.
      ttest 15 9. ttest 15 10. ttest 15 11. ttest 15 12. ttest 15 13. ttest 15 14. ttest 15 15. cbv iota.
      destruct (fl =? 0) eqn:E; cbn [negb orb]; [intros _; now apply N.eqb_eq in E|discriminate]. }
    subst fl. apply tailed_canonical; auto.
  - exfalso. unfold decode_body in H.
    assert (t =? 1 = false) by lia. assert (t =? 2 = false) by lia. assert (t =? 3 = false) by lia.
    assert ((4 <=? t) && (t <=? 7) = false) by lia. assert (t =? 8 = false) by lia. assert (t =? 9 = false) by lia.
    assert (t =? 10 = false) by lia. assert (t =? 11 = false) by lia. assert (t =? 12 = false) by lia.
    assert (t =? 13 = false) by lia. assert (t =? 14 = false) by lia. assert (t =? 15 = false) by lia.
    repeat match goal with E : _ = false |- _ => rewrite E in H; clear E end. discriminate.
Qed.

(* C04: accepted input is canonical — every byte list the reference decoder accepts as a control
   packet IS the reference encoding of the packet it returns (and that packet is builder-valid) *)
Theorem decode_canonical v idw l b :
  all_bytes l = true -> decode v idw l = Some b -> encode v idw b = l /\ packet_ok v idw b = true.
Proof.
  intros Hb. unfold decode. destruct l as [|h t]; [discriminate|].
  destruct (vbi_dec t) as [[rl r]|] eqn:E; cbn [obind]; [|discriminate].
  destruct (N.of_nat (length r) =? rl) eqn:El; cbn [negb]; [|discriminate]. apply N.eqb_eq in El.
  destruct (decode_body v idw (h / 16) (h mod 16) r) as [b'|] eqn:Ed; cbn [obind]; [|discriminate].
  destruct (body_ok v idw b') eqn:Eo; [|discriminate]. intro H; inversion H; subst b'. clear H.
  assert (Hh : h < 256 /\ all_bytes t = true).
  { unfold all_bytes, is_byte in *. cbn [forallb] in Hb. apply andb_true_iff in Hb as [H1 H2]. split; [lia|exact H2]. }
  destruct Hh as [Hh Hbt].
  destruct (vbi_dec_canonical t rl r Hbt E) as [Ht Hrl]. pose proof (suffix_bytes _ _ _ Ht Hbt) as Hbr.
  assert (Hfl : h mod 16 < 16) by lia.
  destruct (body_canonical v idw (h / 16) (h mod 16) r b Hbr Hfl Ed) as (Hbody & Hty & Hflg).
  split.
  - unfold encode. cbv zeta. rewrite Hbody, Hty, Hflg, El. rewrite <- Ht. f_equal. lia.
  - unfold packet_ok. rewrite Eo, Hbody, El. cbn [andb]. unfold VBI_MAX in *. lia.
Qed.
