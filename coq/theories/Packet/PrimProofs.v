(* Round-trip and canonicity of the codec primitives, for every value / every byte list. *)
From Coq Require Import ZArith ZifyBool ZifyN ZifyNat.
From MQ Require Import Base.Prelude Packet.Prim.
Ltac Zify.zify_post_hook ::= Z.div_mod_to_equations.

Lemma u16_roundtrip n r : n < 65536 -> dec_u16 (enc_u16 n ++ r) = Some (n, r).
Proof. intro H. unfold enc_u16, dec_u16. cbn [app]. f_equal. f_equal. lia. Qed.

Lemma u32_roundtrip n r : n < 4294967296 -> dec_u32 (enc_u32 n ++ r) = Some (n, r).
Proof. intro H. unfold enc_u32, dec_u32. cbn [app]. f_equal. f_equal. lia. Qed.

Lemma pid_roundtrip idw n r : n <= pid_max idw -> dec_pid idw (enc_pid idw n ++ r) = Some (n, r).
Proof.
  unfold pid_max, dec_pid, enc_pid. destruct (idw =? 4); intro H; [apply u32_roundtrip|apply u16_roundtrip]; lia.
Qed.

Lemma u16_bytes n : n < 65536 -> all_bytes (enc_u16 n) = true.
Proof. intro H. unfold enc_u16, all_bytes, is_byte. cbn [forallb]. lia. Qed.
Lemma u32_bytes n : n < 4294967296 -> all_bytes (enc_u32 n) = true.
Proof. intro H. unfold enc_u32, all_bytes, is_byte. cbn [forallb]. lia. Qed.

(* ---------- Variable Byte Integer ---------- *)
Lemma vbi_enc_length n : n <= VBI_MAX -> N.of_nat (length (vbi_enc n)) = vbi_size n.
Proof.
  unfold VBI_MAX, vbi_enc, vbi_size. intro H. cbn [vbi_enc_f].
  destruct (n <? 128) eqn:E1; [reflexivity|].
  destruct (n / 128 <? 128) eqn:E2; [assert (n <? 16384 = true) by lia; rewrite H0; reflexivity|].
  assert (n <? 16384 = false) as -> by lia.
  destruct (n / 128 / 128 <? 128) eqn:E3; [assert (n <? 2097152 = true) by lia; rewrite H0; reflexivity|].
  assert (n <? 2097152 = false) as -> by lia.
  destruct (n / 128 / 128 / 128 <? 128) eqn:E4; [reflexivity|]. lia.
Qed.

Lemma vbi_raw_roundtrip n r : n <= VBI_MAX -> vbi_dec_f 4 1 0 (vbi_enc n ++ r) = Some (n, r).
Proof.
  unfold VBI_MAX, vbi_enc. intro H. cbn [vbi_enc_f].
  destruct (n <? 128) eqn:E1.
  { cbn [app vbi_dec_f]. rewrite E1. f_equal. f_equal. lia. }
  destruct (n / 128 <? 128) eqn:E2.
  { cbn [app vbi_dec_f]. assert (n mod 128 + 128 <? 128 = false) as -> by lia. rewrite E2. f_equal. f_equal. lia. }
  destruct (n / 128 / 128 <? 128) eqn:E3.
  { cbn [app vbi_dec_f]. assert (n mod 128 + 128 <? 128 = false) as -> by lia.
    assert (n / 128 mod 128 + 128 <? 128 = false) as -> by lia. rewrite E3. f_equal. f_equal. lia. }
  destruct (n / 128 / 128 / 128 <? 128) eqn:E4; [|lia].
  cbn [app vbi_dec_f]. assert (n mod 128 + 128 <? 128 = false) as -> by lia.
  assert (n / 128 mod 128 + 128 <? 128 = false) as -> by lia.
  assert (n / 128 / 128 mod 128 + 128 <? 128 = false) as -> by lia. rewrite E4. f_equal. f_equal. lia.
Qed.

(* every value up to 268 435 455, on both sides of every length boundary *)
Theorem vbi_roundtrip n r : n <= VBI_MAX -> vbi_dec (vbi_enc n ++ r) = Some (n, r).
Proof.
  intro H. unfold vbi_dec. rewrite (vbi_raw_roundtrip n r H).
  rewrite app_length. replace (length (vbi_enc n) + length r - length r)%nat with (length (vbi_enc n)) by lia.
  rewrite (vbi_enc_length n H), N.eqb_refl. reflexivity.
Qed.

Lemma vbi_enc_bytes n : n <= VBI_MAX -> all_bytes (vbi_enc n) = true.
Proof.
  unfold VBI_MAX, vbi_enc, all_bytes, is_byte. intro H. cbn [vbi_enc_f].
  repeat match goal with |- context [if ?b then _ else _] => destruct b eqn:? end; cbn [forallb]; lia.
Qed.

(* the decoder accepts nothing but the canonical encoding: an accepted prefix IS vbi_enc of the value *)
Theorem vbi_dec_canonical l n t :
  all_bytes l = true -> vbi_dec l = Some (n, t) -> l = vbi_enc n ++ t /\ n <= VBI_MAX.
Proof.
  unfold vbi_dec, VBI_MAX. intros Hb H.
  destruct (vbi_dec_f 4 1 0 l) as [[n' t']|] eqn:E; [|discriminate].
  destruct (N.of_nat (length l - length t') =? vbi_size n') eqn:Es; [|discriminate].
  inversion H; subst n' t'. clear H.
  unfold all_bytes, is_byte in Hb.
  destruct l as [|b0 l]; cbn [vbi_dec_f] in E; [discriminate|].
  cbn [forallb] in Hb. apply andb_true_iff in Hb as [B0 Hb].
  destruct (b0 <? 128) eqn:E0.
  { inversion E; subst. unfold vbi_enc. cbn [vbi_enc_f]. assert (0 + b0 mod 128 * 1 <? 128 = true) as -> by lia.
    split; [cbn [app]; f_equal; lia|lia]. }
  destruct l as [|b1 l]; cbn [vbi_dec_f] in E; [discriminate|].
  cbn [forallb] in Hb. apply andb_true_iff in Hb as [B1 Hb].
  destruct (b1 <? 128) eqn:E1.
  { inversion E; subst. cbn [length] in Es. unfold vbi_size in Es.
    replace (S (S (length t)) - length t)%nat with 2%nat in Es by lia.
    set (n := 0 + b0 mod 128 * 1 + b1 mod 128 * (1 * 128)) in *.
    destruct (n <? 128) eqn:N1; [discriminate|]. destruct (n <? 16384) eqn:N2; [|destruct (n <? 2097152); discriminate].
    unfold vbi_enc. cbn [vbi_enc_f]. rewrite N1. assert (n / 128 <? 128 = true) as -> by lia.
    split; [cbn [app]; f_equal; [subst n; lia|f_equal; subst n; lia]|lia]. }
  destruct l as [|b2 l]; cbn [vbi_dec_f] in E; [discriminate|].
  cbn [forallb] in Hb. apply andb_true_iff in Hb as [B2 Hb].
  destruct (b2 <? 128) eqn:E2.
  { inversion E; subst. cbn [length] in Es. unfold vbi_size in Es.
    replace (S (S (S (length t))) - length t)%nat with 3%nat in Es by lia.
    set (n := 0 + b0 mod 128 * 1 + b1 mod 128 * (1 * 128) + b2 mod 128 * (1 * 128 * 128)) in *.
    destruct (n <? 128) eqn:N1; [discriminate|]. destruct (n <? 16384) eqn:N2; [discriminate|].
    destruct (n <? 2097152) eqn:N3; [|discriminate].
    unfold vbi_enc. cbn [vbi_enc_f]. rewrite N1. assert (n / 128 <? 128 = false) as -> by lia.
    assert (n / 128 / 128 <? 128 = true) as -> by lia.
    split; [cbn [app]; f_equal; [subst n; lia|f_equal; [subst n; lia|f_equal; subst n; lia]]|lia]. }
  destruct l as [|b3 l]; cbn [vbi_dec_f] in E; [discriminate|].
  cbn [forallb] in Hb. apply andb_true_iff in Hb as [B3 Hb].
  destruct (b3 <? 128) eqn:E3; [|discriminate].
  inversion E; subst. cbn [length] in Es. unfold vbi_size in Es.
  replace (S (S (S (S (length t)))) - length t)%nat with 4%nat in Es by lia.
  set (n := 0 + b0 mod 128 * 1 + b1 mod 128 * (1 * 128) + b2 mod 128 * (1 * 128 * 128) + b3 mod 128 * (1 * 128 * 128 * 128)) in *.
  destruct (n <? 128) eqn:N1; [discriminate|]. destruct (n <? 16384) eqn:N2; [discriminate|].
  destruct (n <? 2097152) eqn:N3; [discriminate|].
  unfold vbi_enc. cbn [vbi_enc_f]. rewrite N1. assert (n / 128 <? 128 = false) as -> by lia.
  assert (n / 128 / 128 <? 128 = false) as -> by lia. assert (n / 128 / 128 / 128 <? 128 = true) as -> by lia.
  split; [cbn [app]; f_equal; [subst n; lia|f_equal; [subst n; lia|f_equal; [subst n; lia|f_equal; subst n; lia]]]|subst n; lia].
Qed.

(* ---------- length-prefixed data ---------- *)
Lemma lp_roundtrip d r : N.of_nat (length d) <= 65535 -> dec_lp (enc_lp d ++ r) = Some (d, r).
Proof.
  intro H. unfold enc_lp, dec_lp. rewrite <- app_assoc, u16_roundtrip by lia.
  rewrite app_length. assert (N.of_nat (length d + length r) <? N.of_nat (length d) = false) as -> by lia.
  rewrite Nat2N.id, firstn_app, Nat.sub_diag, firstn_all, skipn_app, Nat.sub_diag, skipn_all. cbn. now rewrite app_nil_r.
Qed.

Lemma lp_canonical l d t : all_bytes l = true -> dec_lp l = Some (d, t) -> l = enc_lp d ++ t /\ N.of_nat (length d) <= 65535.
Proof.
  unfold dec_lp, dec_u16, enc_lp, enc_u16. intros Hb.
  destruct l as [|a [|b l]]; try discriminate.
  unfold all_bytes, is_byte in Hb. cbn [forallb] in Hb. apply andb_true_iff in Hb as [Ha Hb]. apply andb_true_iff in Hb as [Hb _].
  destruct (N.of_nat (length l) <? a * 256 + b) eqn:E; [discriminate|]. intro H. inversion H; subst. clear H.
  assert (Hlen : length (firstn (N.to_nat (a * 256 + b)) l) = N.to_nat (a * 256 + b)) by (rewrite firstn_length; lia).
  rewrite Hlen, N2Nat.id. split; [|lia].
  cbn [app]. f_equal; [lia|]. f_equal; [lia|]. now rewrite firstn_skipn.
Qed.

Lemma str_roundtrip s r : str_ok s = true -> dec_str (enc_lp s ++ r) = Some (s, r).
Proof.
  unfold str_ok. intro H. apply andb_true_iff in H as [H Hu]. apply andb_true_iff in H as [_ Hl].
  unfold dec_str. rewrite lp_roundtrip by lia. now rewrite Hu.
Qed.
