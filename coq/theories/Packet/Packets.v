(* The 29 MQTT control packets (v3.1.1 section 3, v5.0 section 3): abstract field values, their
   wire encoding and decoding, written from the OASIS specifications.  This is the reference
   codec: the correspondence compares the library's bytes with `encode` of the field values its
   accessors report, and its parsers with `decode`. *)
From MQ Require Import Base.Prelude Packet.Prim Packet.Props.

Inductive ver := PV311 | PV50.
Definition is_v5 (v : ver) : bool := match v with PV50 => true | PV311 => false end.

(* optional trailer of the v5.0 acknowledgement family: reason code, then properties *)
Record tail := mkTail { t_rc : option N; t_props : option (list prop) }.

Record will := mkWill { w_qos : N; w_retain : bool; w_props : list prop; w_topic : bytes; w_payload : bytes }.

Inductive body :=
| BConnect (clean : bool) (keep_alive : N) (props : list prop) (client_id : bytes) (w : option will)
           (user : option bytes) (pass : option bytes)
| BConnack (session_present : bool) (rc : N) (props : list prop)
| BPublish (dup : bool) (qos : N) (retain : bool) (topic : bytes) (pid : option N) (props : list prop) (payload : bytes)
| BAck (t : N) (pid : N) (tl : tail)                       (* PUBACK 4, PUBREC 5, PUBREL 6, PUBCOMP 7 *)
| BSubscribe (pid : N) (props : list prop) (entries : list (bytes * N))
| BSuback (pid : N) (props : list prop) (codes : list N)
| BUnsubscribe (pid : N) (props : list prop) (filters : list bytes)
| BUnsuback (pid : N) (props : list prop) (codes : list N)
| BPingreq | BPingresp
| BDisconnect (tl : tail)
| BAuth (tl : tail).

Definition type_of (b : body) : N :=
  match b with
  | BConnect _ _ _ _ _ _ _ => 1 | BConnack _ _ _ => 2 | BPublish _ _ _ _ _ _ _ => 3 | BAck t _ _ => t
  | BSubscribe _ _ _ => 8 | BSuback _ _ _ => 9 | BUnsubscribe _ _ _ => 10 | BUnsuback _ _ _ => 11
  | BPingreq => 12 | BPingresp => 13 | BDisconnect _ => 14 | BAuth _ => 15
  end.

(* fixed header flags (2.2.2 / 2.1.3): PUBLISH carries DUP/QoS/RETAIN; PUBREL, SUBSCRIBE, UNSUBSCRIBE 0010 *)
Definition flags_of (b : body) : N :=
  match b with
  | BPublish dup qos retain _ _ _ _ => (if dup then 8 else 0) + qos * 2 + (if retain then 1 else 0)
  | BAck t _ _ => if t =? 6 then 2 else 0
  | BSubscribe _ _ _ => 2
  | BUnsubscribe _ _ _ => 2
  | _ => 0
  end.

Definition opt_props (v : ver) (ps : list prop) : bytes := if is_v5 v then enc_props ps else [].

Definition enc_tail (tl : tail) : bytes :=
  match t_rc tl with
  | None => []
  | Some rc => rc :: match t_props tl with None => [] | Some ps => enc_props ps end
  end.

Definition connect_flags (clean : bool) (w : option will) (user pass : option bytes) : N :=
  (if clean then 2 else 0)
  + match w with Some x => 4 + w_qos x * 8 + (if w_retain x then 32 else 0) | None => 0 end
  + (match pass with Some _ => 64 | None => 0 end)
  + (match user with Some _ => 128 | None => 0 end).

Definition enc_will (v : ver) (w : will) : bytes :=
  opt_props v (w_props w) ++ enc_lp (w_topic w) ++ enc_lp (w_payload w).

(* variable header + payload *)
Definition enc_body (v : ver) (idw : N) (b : body) : bytes :=
  match b with
  | BConnect clean ka ps cid w user pass =>
    [0; 4; 77; 81; 84; 84] ++ [if is_v5 v then 5 else 4] ++ [connect_flags clean w user pass] ++ enc_u16 ka
    ++ opt_props v ps ++ enc_lp cid
    ++ match w with Some x => enc_will v x | None => [] end
    ++ match user with Some u => enc_lp u | None => [] end
    ++ match pass with Some p => enc_lp p | None => [] end
  | BConnack sp rc ps => [b2n sp; rc] ++ opt_props v ps
  | BPublish _ _ _ topic pid ps payload =>
    enc_lp topic ++ match pid with Some i => enc_pid idw i | None => [] end ++ opt_props v ps ++ payload
  | BAck _ pid tl => enc_pid idw pid ++ enc_tail tl
  | BSubscribe pid ps es =>
    enc_pid idw pid ++ opt_props v ps ++ flat_map (fun e => enc_lp (fst e) ++ [snd e]) es
  | BSuback pid ps codes => enc_pid idw pid ++ opt_props v ps ++ codes
  | BUnsubscribe pid ps fs => enc_pid idw pid ++ opt_props v ps ++ flat_map enc_lp fs
  | BUnsuback pid ps codes => enc_pid idw pid ++ opt_props v ps ++ codes
  | BPingreq => [] | BPingresp => []
  | BDisconnect tl => enc_tail tl
  | BAuth tl => enc_tail tl
  end.

(* the whole control packet: fixed header byte, Remaining Length, body *)
Definition encode (v : ver) (idw : N) (b : body) : bytes :=
  let bd := enc_body v idw b in
  (type_of b * 16 + flags_of b) :: vbi_enc (N.of_nat (length bd)) ++ bd.

(* ---------- well-formedness: what the builders accept ---------- *)
Definition opt_ok {A} (f : A -> bool) (o : option A) : bool := match o with Some x => f x | None => true end.

Definition topic_name_ok (t : bytes) : bool := str_ok t && negb (existsb (fun c => (c =? 35) || (c =? 43)) t).   (* no # or + *)

(* reason / return codes each packet may carry *)
Definition connack_rc_ok (v : ver) (rc : N) : bool :=
  if is_v5 v then existsb (N.eqb rc) [0; 128; 129; 130; 131; 132; 133; 134; 135; 136; 137; 138; 140; 144; 149; 151; 153; 154; 155; 156; 157; 159]
  else rc <=? 5.
Definition ack_rc_ok (t rc : N) : bool :=
  if (t =? 4) || (t =? 5) then existsb (N.eqb rc) [0; 16; 128; 131; 135; 144; 145; 151; 153]
  else existsb (N.eqb rc) [0; 146].
Definition disconnect_rc_ok (rc : N) : bool :=
  existsb (N.eqb rc) [0; 4; 128; 129; 130; 131; 135; 137; 139; 141; 142; 143; 144; 147; 148; 149; 150; 151; 152; 153; 154;
                      155; 156; 157; 158; 159; 160; 161; 162].
Definition auth_rc_ok (rc : N) : bool := existsb (N.eqb rc) [0; 24; 25].
Definition suback_code_ok (v : ver) (c : N) : bool :=
  if is_v5 v then existsb (N.eqb c) [0; 1; 2; 128; 131; 135; 143; 145; 151; 158; 161; 162]
  else existsb (N.eqb c) [0; 1; 2; 128].
Definition unsuback_code_ok (c : N) : bool := existsb (N.eqb c) [0; 17; 128; 131; 135; 143; 145].

Definition tail_ok (loc : N) (rc_ok : N -> bool) (tl : tail) : bool :=
  match t_rc tl, t_props tl with
  | None, None => true
  | None, Some _ => false
  | Some rc, None => rc_ok rc
  | Some rc, Some ps => rc_ok rc && props_valid loc ps && (N.of_nat (length (enc_props_body ps)) <=? VBI_MAX)
  end.

Definition props_fit (ps : list prop) : bool := N.of_nat (length (enc_props_body ps)) <=? VBI_MAX.
Definition vprops_ok (v : ver) (loc : N) (ps : list prop) : bool :=
  if is_v5 v then props_valid loc ps && props_fit ps else match ps with [] => true | _ => false end.

(* Subscription Options (3.8.3.1): QoS 0..2, Retain Handling 0..2, bits 6-7 reserved; v3.1.1: QoS only *)
Definition sub_opts_ok (v : ver) (o : N) : bool :=
  if is_v5 v then (o <? 64) && (o mod 4 <=? 2) && ((o / 16) mod 4 <=? 2) else o <=? 2.

Definition pid_ok (idw pid : N) : bool := (1 <=? pid) && (pid <=? pid_max idw).

Definition body_ok (v : ver) (idw : N) (b : body) : bool :=
  match b with
  | BConnect clean ka ps cid w user pass =>
    (ka <? 65536) && vprops_ok v L_CONNECT ps && str_ok cid
    && opt_ok (fun x => (w_qos x <=? 2) && vprops_ok v L_WILL (w_props x) && str_ok (w_topic x) && bin_ok (w_payload x)) w
    && opt_ok str_ok user && opt_ok bin_ok pass
    && (match pass, user with Some _, None => false | _, _ => true end)
  | BConnack sp rc ps => connack_rc_ok v rc && vprops_ok v L_CONNACK ps
  | BPublish dup qos retain topic pid ps payload =>
    (qos <=? 2) && all_bytes payload && vprops_ok v L_PUBLISH ps
    && (match pid with Some i => negb (qos =? 0) && pid_ok idw i | None => qos =? 0 end)
    && (if is_v5 v
        then str_ok topic && negb (existsb (fun c => (c =? 35) || (c =? 43)) topic)
             && (match topic with [] => memn 35 (map p_id ps) | _ => true end)
        else topic_name_ok topic && match topic with [] => false | _ => true end)
  | BAck t pid tl =>
    (4 <=? t) && (t <=? 7) && pid_ok idw pid
    && (if is_v5 v then tail_ok t (ack_rc_ok t) tl else match t_rc tl, t_props tl with None, None => true | _, _ => false end)
  | BSubscribe pid ps es =>
    pid_ok idw pid && vprops_ok v L_SUBSCRIBE ps && negb (match es with [] => true | _ => false end)
    && forallb (fun e => str_ok (fst e) && sub_opts_ok v (snd e)) es
  | BSuback pid ps codes =>
    pid_ok idw pid && vprops_ok v L_SUBACK ps && negb (match codes with [] => true | _ => false end)
    && forallb (suback_code_ok v) codes
  | BUnsubscribe pid ps fs =>
    pid_ok idw pid && vprops_ok v L_UNSUBSCRIBE ps && negb (match fs with [] => true | _ => false end) && forallb str_ok fs
  | BUnsuback pid ps codes =>
    pid_ok idw pid && vprops_ok v L_UNSUBACK ps
    && (if is_v5 v then negb (match codes with [] => true | _ => false end) && forallb unsuback_code_ok codes
        else match codes with [] => true | _ => false end)
  | BPingreq => true | BPingresp => true
  | BDisconnect tl => if is_v5 v then tail_ok L_DISCONNECT disconnect_rc_ok tl
                      else match t_rc tl, t_props tl with None, None => true | _, _ => false end
  | BAuth tl =>
    (* 3.15: either nothing at all (Success, no properties) or reason code AND property length;
       anything but Success needs an Authentication Method, and Authentication Data needs one too *)
    is_v5 v && tail_ok L_AUTH auth_rc_ok tl
    && (match t_rc tl, t_props tl with
        | None, None => true
        | Some rc, Some ps => ((rc =? 0) || memn 21 (map p_id ps)) && auth_dep_ok (map p_id ps)
        | _, _ => false
        end)
  end.

Definition packet_ok (v : ver) (idw : N) (b : body) : bool :=
  body_ok v idw b && (N.of_nat (length (enc_body v idw b)) <=? VBI_MAX).
