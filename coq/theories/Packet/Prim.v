(* Codec primitives, written from the OASIS MQTT specifications (1.5 Data representation):
   big-endian integers, Variable Byte Integer, UTF-8 Encoded String, Binary Data. *)
From MQ Require Import Base.Prelude.

Notation bytes := (list N).

Definition is_byte (b : N) : bool := b <? 256.
Definition all_bytes (l : bytes) : bool := forallb is_byte l.

(* ---------- fixed-width integers ---------- *)
Definition enc_u8 (n : N) : bytes := [n].
Definition enc_u16 (n : N) : bytes := [n / 256; n mod 256].
Definition enc_u32 (n : N) : bytes := [n / 16777216; (n / 65536) mod 256; (n / 256) mod 256; n mod 256].

Definition dec_u8 (l : bytes) : option (N * bytes) := match l with b :: t => Some (b, t) | [] => None end.
Definition dec_u16 (l : bytes) : option (N * bytes) :=
  match l with a :: b :: t => Some (a * 256 + b, t) | _ => None end.
Definition dec_u32 (l : bytes) : option (N * bytes) :=
  match l with a :: b :: c :: d :: t => Some (a * 16777216 + b * 65536 + c * 256 + d, t) | _ => None end.

(* packet identifier of either width *)
Definition enc_pid (idw n : N) : bytes := if idw =? 4 then enc_u32 n else enc_u16 n.
Definition dec_pid (idw : N) (l : bytes) : option (N * bytes) := if idw =? 4 then dec_u32 l else dec_u16 l.
Definition pid_max (idw : N) : N := if idw =? 4 then 4294967295 else 65535.

(* ---------- Variable Byte Integer (1.5.5): at most four bytes, least significant group first,
   minimal length ---------- *)
Definition VBI_MAX : N := 268435455.

Fixpoint vbi_enc_f (fuel : nat) (n : N) : bytes :=
  match fuel with
  | O => []
  | S f => if n <? 128 then [n] else (n mod 128 + 128) :: vbi_enc_f f (n / 128)
  end.
Definition vbi_enc (n : N) : bytes := vbi_enc_f 4 n.
Definition vbi_size (n : N) : N := if n <? 128 then 1 else if n <? 16384 then 2 else if n <? 2097152 then 3 else 4.

(* raw decoding: value, number of bytes read *)
Fixpoint vbi_dec_f (fuel : nat) (mult acc : N) (l : bytes) : option (N * bytes) :=
  match fuel with
  | O => None
  | S f =>
    match l with
    | [] => None
    | b :: t =>
      let acc' := acc + (b mod 128) * mult in
      if b <? 128 then Some (acc', t) else vbi_dec_f f (mult * 128) acc' t
    end
  end.

(* the decoder accepts only the minimal encoding *)
Definition vbi_dec (l : bytes) : option (N * bytes) :=
  match vbi_dec_f 4 1 0 l with
  | Some (n, t) => if N.of_nat (length l - length t) =? vbi_size n then Some (n, t) else None
  | None => None
  end.

(* ---------- length-prefixed data ---------- *)
Definition enc_lp (d : bytes) : bytes := enc_u16 (N.of_nat (length d)) ++ d.
Definition dec_lp (l : bytes) : option (bytes * bytes) :=
  match dec_u16 l with
  | Some (n, t) => if N.of_nat (length t) <? n then None else Some (firstn (N.to_nat n) t, skipn (N.to_nat n) t)
  | None => None
  end.

(* ---------- UTF-8 well-formedness (Unicode 3.9, Table 3-7) ---------- *)
Definition cont (b : N) : bool := (128 <=? b) && (b <=? 191).
Fixpoint utf8_f (fuel : nat) (l : bytes) : bool :=
  match fuel with
  | O => match l with [] => true | _ => false end
  | S f =>
    match l with
    | [] => true
    | b0 :: t =>
      if b0 <? 128 then utf8_f f t
      else if (194 <=? b0) && (b0 <=? 223) then
        match t with b1 :: t1 => cont b1 && utf8_f f t1 | _ => false end
      else if b0 =? 224 then
        match t with b1 :: b2 :: t2 => (160 <=? b1) && (b1 <=? 191) && cont b2 && utf8_f f t2 | _ => false end
      else if ((225 <=? b0) && (b0 <=? 236)) || (b0 =? 238) || (b0 =? 239) then
        match t with b1 :: b2 :: t2 => cont b1 && cont b2 && utf8_f f t2 | _ => false end
      else if b0 =? 237 then
        match t with b1 :: b2 :: t2 => (128 <=? b1) && (b1 <=? 159) && cont b2 && utf8_f f t2 | _ => false end
      else if b0 =? 240 then
        match t with b1 :: b2 :: b3 :: t3 => (144 <=? b1) && (b1 <=? 191) && cont b2 && cont b3 && utf8_f f t3 | _ => false end
      else if (241 <=? b0) && (b0 <=? 243) then
        match t with b1 :: b2 :: b3 :: t3 => cont b1 && cont b2 && cont b3 && utf8_f f t3 | _ => false end
      else if b0 =? 244 then
        match t with b1 :: b2 :: b3 :: t3 => (128 <=? b1) && (b1 <=? 143) && cont b2 && cont b3 && utf8_f f t3 | _ => false end
      else false
    end
  end.
Definition utf8_valid (l : bytes) : bool := utf8_f (length l) l.

Definition dec_str (l : bytes) : option (bytes * bytes) :=
  match dec_lp l with
  | Some (s, t) => if utf8_valid s then Some (s, t) else None
  | None => None
  end.

(* a string / binary the builders accept *)
Definition str_ok (s : bytes) : bool := all_bytes s && (N.of_nat (length s) <=? 65535) && utf8_valid s.
Definition bin_ok (s : bytes) : bool := all_bytes s && (N.of_nat (length s) <=? 65535).
