(* Per-property projection of the correspondence (cone of influence): the model is restarted from
   the implementation's own state before every call and only the fields / event classes the
   property's theorems depend on are compared, so that an unrelated change raises no alarm. *)
From MQ Require Import Base.Prelude Alloc.Alloc Framing.Framing Conn.Types Conn.TopicAlias Conn.ConnRecord
                       Conn.Step Corr.Tok Corr.ConnCodec Corr.ConnCorr Corr.ConnTrace.

(* field groups *)
Definition F_VER := 0.  Definition F_PID := 1.  Definition F_SUBSETS := 2.  Definition F_PUBSETS := 3.
Definition F_NEED_STORE := 4.  Definition F_STORE := 5.  Definition F_OPTS := 6.  Definition F_TA_RECV := 7.
Definition F_TA_SEND := 8.  Definition F_RM := 9.  Definition F_PUBLISH_RECV := 10.  Definition F_MPS := 11.
Definition F_STATUS := 12.  Definition F_PING := 13.  Definition F_QOS2 := 14.  Definition F_TIMERS := 15.
Definition F_PB := 16.  Definition F_IS_CLIENT := 17.

Definition enc_group (f : N) (c : conn) : list N :=
  if f =? F_VER then [ver_n (c_version c)]
  else if f =? F_PID then N.of_nat (length (a_pool (c_pid c))) :: unpairs (a_pool (c_pid c))
  else if f =? F_SUBSETS then enc_set (c_suback c) ++ enc_set (c_unsuback c)
  else if f =? F_PUBSETS then enc_set (c_puback c) ++ enc_set (c_pubrec c) ++ enc_set (c_pubcomp c)
  else if f =? F_NEED_STORE then [b2n (c_need_store c)]
  else if f =? F_STORE then N.of_nat (length (c_store c)) :: concat (map enc_pkt (c_store c))
  else if f =? F_OPTS then [b2n (c_offline c); b2n (c_auto_pub c); b2n (c_auto_ping c); b2n (c_auto_map c); b2n (c_auto_replace c)]
  else if f =? F_TA_RECV then
    match c_ta_recv c with
    | None => [0]
    | Some r => [1; tr_max r; N.of_nat (length (tr_map r))] ++ concat (map (fun at_ => fst at_ :: enc_topic (snd at_)) (tr_map r))
    end
  else if f =? F_TA_SEND then
    match c_ta_send c with
    | None => [0]
    | Some s => [1; ts_max s; N.of_nat (length (ts_a2t s))]
                ++ concat (map (fun at_ => fst at_ :: enc_topic (snd at_)) (ts_a2t s))
                ++ [N.of_nat (length (ts_t2a s))]
                ++ concat (map (fun ta => enc_topic (fst ta) ++ enc_set (snd ta)) (t2a_sort (ts_t2a s)))
                ++ (N.of_nat (length (a_pool (ts_va s))) :: unpairs (a_pool (ts_va s)))
    end
  else if f =? F_RM then enc_opt (c_send_max c) ++ enc_opt (c_recv_max c) ++ [c_send_count c] ++ enc_opt (vacancy c)
  else if f =? F_PUBLISH_RECV then enc_set (c_publish_recv c)
  else if f =? F_MPS then [c_mps_send c; c_mps_recv c]
  else if f =? F_STATUS then [status_n (c_status c)]
  else if f =? F_PING then enc_opt (c_user_ping c) ++ [c_keep_alive_ms c] ++ enc_opt (c_server_ka_ms c)
                           ++ [c_pingreq_recv_to c; c_pingresp_recv_to c]
  else if f =? F_QOS2 then enc_set (c_qos2 c)
  else if f =? F_TIMERS then [b2n (c_t_send c); b2n (c_t_recv c); b2n (c_t_resp c)]
  else if f =? F_PB then [rstate_n (pb_st (c_pb c))] ++ enc_set (pb_hdr (c_pb c)) ++ [pb_rem (c_pb c)] ++ enc_set (pb_buf (c_pb c))
  else if f =? F_IS_CLIENT then [b2n (c_is_client c)]
  else [].

(* event classes: 0 send 1 notify 2 released 3 timer 4 error 5 close *)
Definition ev_class (e : event) : N :=
  match e with
  | ESend _ _ => 0 | ENotify _ => 1 | EReleased _ => 2 | ETimerReset _ _ => 3 | ETimerCancel _ => 3
  | EError _ => 4 | EClose => 5
  end.

Definition ALL_FIELDS : list N := [0; 1; 2; 3; 4; 5; 6; 7; 8; 9; 10; 11; 12; 13; 14; 15; 16; 17].
Definition ALL_EVENTS : list N := [0; 1; 2; 3; 4; 5].

(* property number -> (fields, event classes, compare return value, compare panics) *)
Definition proj_spec (k : N) : list N * list N * bool * bool :=
  if k =? 5 then (ALL_FIELDS, ALL_EVENTS, true, true)
  else if k =? 6 then ([F_PID; F_PUBSETS; F_NEED_STORE; F_STORE; F_STATUS], [0; 4; 2], false, false)
  else if k =? 7 then ([F_QOS2; F_PUBLISH_RECV; F_STATUS], [1; 0], false, false)
  else if k =? 8 then ([F_PID; F_SUBSETS; F_PUBSETS; F_STORE], [2; 4; 0], true, false)
  else if k =? 9 then ([F_PB], ALL_EVENTS, true, false)
  else if k =? 10 then (ALL_FIELDS, ALL_EVENTS, false, false)
  else if k =? 11 then ([F_STATUS; F_PID], [0; 4; 2], false, false)
  else if k =? 12 then ([F_RM; F_PUBLISH_RECV; F_STATUS], [0; 4; 1], false, false)
  else if k =? 13 then ([F_TA_RECV; F_TA_SEND; F_STATUS], [0; 1; 4], false, false)
  else if k =? 14 then ([F_MPS; F_STATUS], [0; 4; 2; 5; 1], false, false)
  else if k =? 15 then ([F_TIMERS; F_PING; F_STATUS; F_IS_CLIENT], [3; 0; 5], false, false)
  else if k =? 16 then ([F_STORE; F_PUBSETS; F_QOS2; F_PID; F_RM], [0; 2; 1], false, false)
  else if k =? 17 then ([F_VER; F_STATUS], [1; 4; 0; 5], false, false)
  else if k =? 19 then ([], [0; 5], false, false)
  else (ALL_FIELDS, ALL_EVENTS, true, true).

Definition memn (x : N) (l : list N) : bool := existsb (N.eqb x) l.

Definition proj_state (fs : list N) (c : conn) : list N := concat (map (fun f => enc_group f c) fs).
Definition proj_events (cls : list N) (l : list event) : list N :=
  enc_events (filter (fun e => memn (ev_class e) cls) l).

Fixpoint proj_obs (k : N) (g : cfg) (idx : N) (l : list obs) : list N :=
  match l with
  | [] => []
  | o :: t =>
    let '(fs, cls, cmp_ret, cmp_pan) := proj_spec k in
    match step g (ob_pre o) (ob_op o) with
    | Panic w =>
      if ob_pan o then [] else if cmp_pan then [idx; V_PANIC_MODEL_ONLY; w] else []
    | Ok (c', evs, ret) =>
      if ob_pan o then (if cmp_pan then [idx; V_PANIC_IMPL_ONLY] else [])
      else if negb (nlist_eqb (proj_events cls evs) (proj_events cls (ob_evs o))) then
        idx :: V_EVENTS :: proj_events cls evs
      else if cmp_ret && negb (nlist_eqb ret (ob_ret o)) then idx :: V_ANSWER :: ret
      else if negb (nlist_eqb (proj_state fs c') (proj_state fs (ob_post o))) then
        [idx; V_STATE]
      else proj_obs k g (idx + 1) t
    end
  end.

(* checker entry: the first number of the case line selects the property *)
Definition check_conn_proj (cs : list N) : list N :=
  match cs with
  | k :: rest =>
    let t := dec_trace rest in
    if negb (tr_ok t) then [0; V_BADCASE] else proj_obs k (tr_cfg t) 0 (tr_obs t)
  | [] => [0; V_BADCASE]
  end.
