(* Monitors for C08 (packet identifiers) and C12 (Receive Maximum), judged on the
   implementation's trace.  Ghost state is built from operations and events only; the in-use id
   set and the counters are read from the state digest (hook), as the property anchors say. *)
From MQ Require Import Base.Prelude Alloc.Alloc Alloc.SetSpec Framing.Framing Conn.Types Conn.TopicAlias Conn.ConnRecord
                       Conn.Step Corr.Tok Corr.ConnCodec Corr.ConnCorr Corr.ConnTrace Mon.Proj Mon.MonGate.

Definition memb (x : N) (l : list N) : bool := existsb (N.eqb x) l.
Definition remove_all (x : N) (l : list N) : list N := filter (fun y => negb (y =? x)) l.
Definition add_once (x : N) (l : list N) : list N := if memb x l then l else x :: l.
Fixpoint nodupb (l : list N) : bool := match l with [] => true | x :: t => negb (memb x t) && nodupb t end.

Definition free_count (a : alloc) : N := fold_right (fun iv acc => snd iv - fst iv + 1 + acc) 0 (a_pool a).
Definition used (c : conn) (id : N) : bool := pm_is_used (c_pid c) id.

(* the frame completing in a recv() and the parser's verdict on it *)
Definition recv_pkt (o : obs) : option pkt :=
  match ob_op o with
  | ORecv bytes (PROk p) => match completed_frame (ob_pre o) bytes with Some _ => Some p | None => None end
  | _ => None
  end.

(* does this call start a new session (wholesale id reset allowed without events)? *)
Definition may_reset_session (o : obs) : bool :=
  match ob_op o with
  | OSend p => k_type p =? T_CONNECT
  | ORecv _ _ => match recv_pkt o with Some p => (k_type p =? T_CONNECT) || (k_type p =? T_CONNACK) | None => false end
  | _ => false
  end.

(* ---------------- C08 ---------------- *)
Record g08 := mkG08 { g_app : list N; g_contract : bool }.   (* ids the application holds and is responsible for *)

Definition id_carrier (p : pkt) : bool :=
  ((k_type p =? T_PUBLISH) && negb (k_qos p =? 0)) || (k_type p =? T_SUBSCRIBE) || (k_type p =? T_UNSUBSCRIBE).

Definition judge_c08 (g : cfg) (gh : g08) (o : obs) : list N * g08 :=
  let pre := ob_pre o in
  let post := ob_post o in
  let evs := ob_evs o in
  if ob_pan o then
    (* id-management calls are total for every id value, contract or not *)
    (match ob_op o with
     | ORelease _ | ORegister _ | OErase _ | OAcquire => ([1], gh)
     | _ => ([], gh)
     end)
  else
  let rel := released evs in
  let app0 := g_app gh in
  (* every announced release turns an in-use id free, once *)
  let rel_ok := nodupb rel && forallb (fun id => used pre id && negb (used post id)) rel in
  let fc_pre := free_count (c_pid pre) in
  let fc_post := free_count (c_pid post) in
  let full_free := (fc_post =? g_idmax g) in
  (* a PUBREC with a success code (none, 0x00, 0x10) does not complete the exchange: its identifier is
     not released by that call (the PUBREL / PUBCOMP are still to come) *)
  let early := match recv_pkt o with
               | Some p => (k_type p =? T_PUBREC) && negb (k_rc_present p && (128 <=? k_rc p)) && memb (k_pid p) rel
                           && negb (existsb is_error evs)
               | None => false end in
  let v :=
    if negb rel_ok then [2]
    else if early then [16]
    else match ob_op o with
    | OAcquire =>
      match ob_ret o with
      | [x] => if negb (used pre x) && used post x && (match a_first_vacant (c_pid pre) with Some y => y =? x | None => false end)
                  && (fc_post + 1 =? fc_pre) then [] else [3; x]
      | [] => if fc_pre =? 0 then [] else [4]             (* exhaustion reported although an id is free *)
      | _ => [5]
      end
    | ORegister id =>
      let ok := (1 <=? id) && (id <=? g_idmax g) && negb (used pre id) in
      match ob_ret o with
      | [r] => if Bool.eqb (n2b r) ok && (if ok then used post id && (fc_post + 1 =? fc_pre) else fc_post =? fc_pre) then [] else [6; id]
      | _ => [7]
      end
    | ORestorePackets _ => []
    | _ =>
      (* no id becomes used; exactly the announced ids become free — unless a new session starts *)
      if fc_post =? fc_pre + N.of_nat (length rel) then []
      else if may_reset_session o && full_free then []
      else [8; fc_pre; fc_post; N.of_nat (length rel)]
    end in
  (* ghost: who is responsible for which id *)
  let app1 := fold_left (fun l id => remove_all id l) rel app0 in
  let app2 :=
    match ob_op o with
    | OAcquire => match ob_ret o with [x] => add_once x app1 | _ => app1 end
    | ORegister id => match ob_ret o with [r] => if n2b r then add_once id app1 else app1 | _ => app1 end
    | OSend p =>
      (* an accepted id-carrying send hands the id to the exchange *)
      if id_carrier p && negb (existsb is_error evs) then remove_all (k_pid p) app1
      else if (k_type p =? T_PUBREL) && negb (existsb is_error evs) then remove_all (k_pid p) app1
      else app1
    | _ => app1
    end in
  (* a success PUBREC delivered to an application that answers by itself makes it responsible again *)
  let app3 :=
    fold_left (fun l p =>
                 (* ... i.e. whenever the library does not continue the exchange itself with a PUBREL *)
                 if (k_type p =? T_PUBREC) && negb (k_rc_present p && (128 <=? k_rc p))
                    && negb (existsb (fun q => (k_type q =? T_PUBREL) && (k_pid q =? k_pid p)) (sends evs))
                 then add_once (k_pid p) l else l) (notifies evs) app2 in
  let v2 :=
    match v with
    | _ :: _ => v
    | [] =>
      match ob_op o with
      | OClosed =>
        (* non-persistent session: nothing the library owned stays in use *)
        (* (only under the application contract: an unreported close followed by a new CONNECT
           forgets the pending subscribe/unsubscribe ids without the library ever being told) *)
        if negb (c_need_store pre) && g_contract gh then
          let used_count := g_idmax g - fc_post in
          let held := N.of_nat (length (filter (fun id => used post id) app3)) in
          if used_count <=? held then [] else [9; used_count; held]
        else []
      | _ => []
      end
    end in
  (v2, mkG08 app3 (g_contract gh)).

Definition mon_c08 (cs : list N) : list N :=
  let t := dec_trace cs in
  if negb (tr_ok t) then [0; V_BADCASE]
  else
    (* restored sessions start with ids the ghost cannot attribute: judged without the close clause *)
    run_mon judge_c08 (tr_cfg t) (mkG08 [] (tr_contract t)) 0 (tr_obs t).

(* ---------------- C12 ---------------- *)
Record g12 := mkG12 { g_open : list N;    (* outbound QoS>0 exchanges of this connection *)
                      g_late : list N;    (* PUBRELs first sent on a later connection than their PUBREC (known finding F-12b) *)
                      g_in : list N;
                      g_unc : list N;     (* exchanges that completed on this connection without ever being counted on it (F-12c) *)
                      g_une : list N }.   (* stored exchanges the application erased before this connection retransmitted (and counted) them (F-12d) *)    (* inbound QoS>0 PUBLISH not yet answered finally by this side *)  

(* a successful CONNACK establishes the connection: what is outstanding afterwards is exactly what
   is retransmitted (session present) or nothing (new session) *)
Definition is_resend (o : obs) : bool :=
  match ob_op o with
  | OSend p => (k_type p =? T_CONNACK) && (k_rc p =? 0) && existsb (fun q => k_type q =? T_CONNACK) (sends (ob_evs o))
  | ORecv _ _ => match recv_pkt o with
                 | Some p => (k_type p =? T_CONNACK) && (k_rc p =? 0) && existsb (fun q => k_type q =? T_CONNACK) (notifies (ob_evs o))
                 | None => false end
  | _ => false
  end.

Definition judge_c12 (g : cfg) (gh : g12) (o : obs) : list N * g12 :=
  if ob_pan o then ([], gh) else
  let pre := ob_pre o in
  let post := ob_post o in
  let evs := ob_evs o in
  let open0 := g_open gh in
  let late0 := if false then [] else g_late gh in
  (* a new connection starts: CONNECT sent / received *)
  let starts := match ob_op o with
                | OSend p => (k_type p =? T_CONNECT) && negb (existsb is_error evs)
                | ORecv _ _ => match recv_pkt o with Some p => (k_type p =? T_CONNECT) && existsb is_notify evs | None => false end
                | _ => false end in
  let open1 := if starts then [] else open0 in
  (* exchanges that complete in this call *)
  let done := flat_map (fun p =>
                if (k_type p =? T_PUBACK) || (k_type p =? T_PUBCOMP) then [k_pid p]
                else if (k_type p =? T_PUBREC) && k_rc_present p && (128 <=? k_rc p) then [k_pid p] else []) (notifies evs) in
  let erased := match ob_op o with OErase id => if memb id (released evs) || negb (nlist_eqb (map k_pid (c_store pre)) (map k_pid (c_store post))) then [id] else [] | _ => [] end in
  (* notify_closed on a session that is not kept: every exchange ends there (identifiers the library still held
     are released; one the application holds for a PUBREL it has not sent yet is the application's to release) *)
  let ended := match ob_op o with OClosed => if c_need_store pre then [] else open1 | _ => [] end in
  let open2 := fold_left (fun l id => remove_all id l) (done ++ erased ++ ended) open1 in
  (* exchanges that open: an accepted QoS>0 PUBLISH; packets retransmitted on resume *)
  let opened :=
    match ob_op o with
    | OSend p => if (k_type p =? T_PUBLISH) && negb (k_qos p =? 0) && negb (existsb is_error evs)
                    && version_eqb (k_ver p) V50 then [k_pid p] else []
    | _ => []
    end in
  let resent := if is_resend o then map k_pid (filter (fun p => (k_type p =? T_PUBLISH) || (k_type p =? T_PUBREL)) (sends evs)) else [] in
  let open3 := if is_resend o then fold_left (fun l id => add_once id l) resent []
               else fold_left (fun l id => add_once id l) opened open2 in
  let n := N.of_nat (length open3) in
  (* a PUBREL the application sends for an exchange this connection has not counted *)
  let late1 := if starts then [] else late0 in
  let late2 := match ob_op o with
               | OSend p => if (k_type p =? T_PUBREL) && negb (existsb is_error evs) && negb (memb (k_pid p) open2)
                               && version_eqb (k_ver p) V50 then add_once (k_pid p) late1 else late1
               | _ => late1 end in
  let late_done := existsb (fun id => memb id late2) done in
  (* a final acknowledgement accepted for an exchange this connection never counted: carried over a
     reconnect without having been retransmitted (it was accepted before the session became persistent) *)
  let unc1 := if starts || is_resend o then [] else g_unc gh in
  let unc2 := fold_left (fun l id => if memb id open1 || memb id late2 then l else add_once id l) done unc1 in
  (* a stored PUBLISH erased by the application before this connection has retransmitted it (between the CONNECT
     and the CONNACK of a resumed session): it was never counted on this connection *)
  let une1 := if starts || is_resend o then [] else g_une gh in
  let une2 := fold_left (fun l id => if memb id open1 then l else add_once id l) erased une1 in
  let v :=
    match c_send_max post with
    | Some m =>
      if negb (version_eqb (c_version post) V50) then []
      else if negb (c_send_count post =? n) then
        (if late_done || negb (match late2 with [] => true | _ => false end) then [90; c_send_count post; n]
         else if negb (match unc2 with [] => true | _ => false end) && (c_send_count post <? n) then [92; c_send_count post; n]
         else if negb (match une2 with [] => true | _ => false end) && (c_send_count post <? n)
                 && (n <=? c_send_count post + N.of_nat (length une2)) then [94; c_send_count post; n]
         else [1; c_send_count post; n])
      else if negb (opt_eqb (vacancy post) (Some (m - n))) then [2]
      else
        (* acceptance only while fewer than M are incomplete *)
        match ob_op o with
        | OSend p =>
          if (k_type p =? T_PUBLISH) && negb (k_qos p =? 0) && version_eqb (k_ver p) V50 then
            match c_send_max pre with
            | Some m0 =>
              let before := N.of_nat (length open2) in
              if negb (existsb is_error evs) && (m0 <=? before) then [3; before; m0]
              else if memb E_RECEIVE_MAXIMUM_EXCEEDED (errors evs) && (before <? m0) then [4; before; m0]
              else []
            | None => []
            end
          else []
        | _ => []
        end
    | None => []
    end in
  (* inbound: more than the locally announced maximum outstanding -> DISCONNECT 0x93, not delivered *)
  let v2 :=
    match v with
    | _ :: _ => v
    | [] =>
      match recv_pkt o, c_recv_max pre with
      | Some p, Some m' =>
        if (k_type p =? T_PUBLISH) && negb (k_qos p =? 0) && version_eqb (c_version pre) V50
           && negb (c_mps_recv pre <? k_size p) then
          if m' <=? N.of_nat (length (c_publish_recv pre)) then
            if existsb is_notify evs then [5]
            else if status_eqb (c_status pre) Connected && negb (existsb (fun q => (k_type q =? T_DISCONNECT) && (k_rc q =? 147)) (sends evs))
                    && negb (c_mps_send pre <? 3) then [6]
            else []
          else if N.of_nat (length (c_publish_recv post)) <=? m' then [] else [7]
        else []
      | _, _ => []
      end
    end in
  (* inbound ghost: what the peer has outstanding with us — a QoS>0 PUBLISH that was not refused opens
     an exchange; our PUBACK / PUBCOMP / error PUBREC (automatic or sent by the application) ends it;
     the library's own set must be exactly that (it is what the quota is judged on) *)
  let in0 := if starts then [] else g_in gh in
  let in1 := match recv_pkt o with
             | Some p => if (k_type p =? T_PUBLISH) && negb (k_qos p =? 0) && version_eqb (c_version pre) V50
                            && negb (c_mps_recv pre <? k_size p) && negb (memb E_RECEIVE_MAXIMUM_EXCEEDED (errors evs))
                         then add_once (k_pid p) in0 else in0
             | None => in0 end in
  let in2 := fold_left (fun l q =>
                 if version_eqb (k_ver q) V50 &&
                    ((k_type q =? T_PUBACK) || (k_type q =? T_PUBCOMP) || ((k_type q =? T_PUBREC) && k_rc_present q && (128 <=? k_rc q)))
                 then remove_all (k_pid q) l else l) (sends evs) in1 in
  let v3 :=
    match v2 with
    | _ :: _ => v2
    | [] =>
      if version_eqb (c_version post) V50 && negb (starts) then
        if (N.of_nat (length in2) =? N.of_nat (length (c_publish_recv post))) && forallb (fun id => memb id (c_publish_recv post)) in2
        then [] else [8; N.of_nat (length in2); N.of_nat (length (c_publish_recv post))]
      else []
    end in
  (v3, mkG12 open3 late2 in2 unc2 une2).

Definition mon_c12 (cs : list N) : list N :=
  let t := dec_trace cs in
  if negb (tr_ok t) then [0; V_BADCASE]
  else if negb (tr_contract t) then []
  else run_mon judge_c12 (tr_cfg t) (mkG12 [] [] [] [] []) 0 (tr_obs t).
