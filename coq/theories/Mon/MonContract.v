(* The application's side of the contract, as a boolean on the implementation's trace: the identifier handed
   to send() with a QoS>0 PUBLISH, PUBREL, SUBSCRIBE or UNSUBSCRIBE is one the application holds (awaited in
   no set, on no stored packet), a QoS 0 PUBLISH carries none, release_packet_id is not called for a stored
   packet's identifier.  This is [own_op_ok] of Conn/OwnStep.v (send_okb_spec below); the contract-abiding
   generator streams are checked against it, so a monitor never judges a history in which the GENERATOR
   reused an identifier that was still in flight. *)
From MQ Require Import Base.Prelude Alloc.Alloc Alloc.SetSpec Framing.Framing Conn.Types Conn.TopicAlias Conn.ConnRecord
                       Conn.Step Corr.Tok Corr.ConnCodec Corr.ConnCorr Corr.ConnTrace Conn.Own Conn.OwnFrame Conn.OwnStep.

Definition fresh_b (c : conn) (id : N) : bool :=
  negb (mem id (c_puback c)) && negb (mem id (c_pubrec c)) && negb (mem id (c_pubcomp c)) &&
  negb (mem id (c_suback c)) && negb (mem id (c_unsuback c)) && negb (store_has id (c_store c)).

Definition send_okb (c : conn) (p : pkt) : bool :=
  (if k_type p =? T_PUBLISH then (k_qos p <=? 2) && (if k_qos p =? 0 then k_pid p =? 0 else fresh_b c (k_pid p)) else true) &&
  (if (k_type p =? T_PUBREL) || (k_type p =? T_SUBSCRIBE) || (k_type p =? T_UNSUBSCRIBE) then fresh_b c (k_pid p) else true).

Definition op_contract_b (o : obs) : bool :=
  match ob_op o with
  | OSend p => send_okb (ob_pre o) p
  | ORelease id => negb (store_has id (c_store (ob_pre o)))
  | _ => true
  end.

Lemma fresh_b_spec c id : fresh_b c id = true -> fresh c id.
Proof.
  unfold fresh_b, fresh, cnt. intro H.
  repeat match goal with H : _ && _ = true |- _ => apply andb_true_iff in H; destruct H end.
  repeat match goal with H : negb _ = true |- _ => apply negb_true_iff in H end.
  split; [|assumption].
  repeat match goal with H : mem id _ = false |- _ => rewrite H; clear H end. reflexivity.
Qed.

Lemma send_okb_spec c p : send_okb c p = true -> send_ok c p.
Proof.
  unfold send_okb, send_ok. intro H. apply andb_true_iff in H as [H1 H2]. split.
  - intro Et. rewrite Et in H1. change (T_PUBLISH =? T_PUBLISH) with true in H1. cbv iota in H1.
    apply andb_true_iff in H1 as [Hq Hf]. split; [now apply N.leb_le|].
    destruct (k_qos p =? 0); [now apply N.eqb_eq|now apply fresh_b_spec].
  - intros [Et|[Et|Et]]; rewrite Et in H2.
    + change (T_PUBREL =? T_PUBREL) with true in H2. cbn [orb] in H2. now apply fresh_b_spec.
    + change (T_SUBSCRIBE =? T_SUBSCRIBE) with true in H2. rewrite orb_true_r in H2. cbn [orb] in H2. now apply fresh_b_spec.
    + change (T_UNSUBSCRIBE =? T_UNSUBSCRIBE) with true in H2. rewrite !orb_true_r in H2. now apply fresh_b_spec.
Qed.

Fixpoint first_breach (idx : N) (l : list obs) : list N :=
  match l with
  | [] => []
  | o :: t => if ob_pan o then [] else if op_contract_b o then first_breach (idx + 1) t else [idx; V_MONITOR; 98]
  end.

(* [] : no breach (or the case does not claim to respect the contract); otherwise the index of the first call
   that breaks it *)
Definition mon_contract (cs : list N) : list N :=
  let t := dec_trace cs in
  if negb (tr_ok t) then [] else if negb (tr_contract t) then [] else first_breach 0 (tr_obs t).
