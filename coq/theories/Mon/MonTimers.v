(* Monitor for C15 — keep-alive timer requests are consistent and complete — judged on the
   implementation's trace.  The observer keeps which timers are armed (and with what interval)
   purely from the events and the expiries the application reports. *)
From MQ Require Import Base.Prelude Alloc.Alloc Framing.Framing Conn.Types Conn.TopicAlias Conn.ConnRecord
                       Conn.Step Corr.Tok Corr.ConnCodec Corr.ConnCorr Corr.ConnTrace Mon.Proj Mon.MonGate.

Record armed := mkArmed { ar_send : option N; ar_recv : option N; ar_resp : option N;
                         (* what decides the client's PINGREQ interval, learnt from operations and events only *)
                         ar_user : option N;      (* application override (set_pingreq_send_interval) *)
                         ar_ska : option N;       (* Server Keep Alive of this connection's CONNACK, ms *)
                         ar_ka : N;               (* keep-alive of the CONNECT sent, ms *)
                         (* what decides a server's receive timeout, learnt from operations and events only: 1.5 x the
                            keep-alive of the CONNECT received, replaced by 1.5 x the Server Keep Alive of the CONNACK sent *)
                         ar_rto : N }.
Definition armed0 : armed := mkArmed None None None None None 0 0.

Definition ar_get (a : armed) (k : timer) : option N :=
  match k with TPingreqSend => ar_send a | TPingreqRecv => ar_recv a | TPingrespRecv => ar_resp a end.
Definition ar_set (a : armed) (k : timer) (v : option N) : armed :=
  match k with
  | TPingreqSend => mkArmed v (ar_recv a) (ar_resp a) (ar_user a) (ar_ska a) (ar_ka a) (ar_rto a)
  | TPingreqRecv => mkArmed (ar_send a) v (ar_resp a) (ar_user a) (ar_ska a) (ar_ka a) (ar_rto a)
  | TPingrespRecv => mkArmed (ar_send a) (ar_recv a) v (ar_user a) (ar_ska a) (ar_ka a) (ar_rto a)
  end.
Definition is_some {A} (o : option A) : bool := match o with Some _ => true | None => false end.

(* replay the timer events; None = a cancel was requested for a timer that is not armed *)
Fixpoint track (a : armed) (l : list event) : option armed :=
  match l with
  | [] => Some a
  | ETimerReset k ms :: t => track (ar_set a k (Some ms)) t
  | ETimerCancel k :: t => if is_some (ar_get a k) then track (ar_set a k None) t else None
  | _ :: t => track a t
  end.

(* the interval a client uses: application override, then Server Keep Alive, then CONNECT keep-alive *)
Definition pick_interval (a : armed) : N :=
  match ar_user a with
  | Some t => t
  | None => match ar_ska a with Some t => t | None => ar_ka a end
  end.
Definition ar_set_cfg (a : armed) (u : option N) (s : option N) (k : N) : armed :=
  mkArmed (ar_send a) (ar_recv a) (ar_resp a) u s k (ar_rto a).
Definition ar_set_rto (a : armed) (t : N) : armed :=
  mkArmed (ar_send a) (ar_recv a) (ar_resp a) (ar_user a) (ar_ska a) (ar_ka a) t.

(* the events after the last ESend *)
Fixpoint after_last_send (l : list event) (acc : list event) : list event :=
  match l with
  | [] => acc
  | ESend _ _ :: t => after_last_send t t
  | _ :: t => after_last_send t acc
  end.

Definition resets_of (k : timer) (l : list event) : list N :=
  flat_map (fun e => match e with ETimerReset k' ms => if timer_eqb k k' then [ms] else [] | _ => [] end) l.

Definition sends_type (t : N) (l : list event) : bool := existsb (fun p => k_type p =? t) (sends l).

Definition is_local (o : op) : bool := match o with ORecv _ _ => false | OTimer _ => false | OClosed => false | _ => true end.

Definition judge_c15 (g : cfg) (a : armed) (o : obs) : list N * armed :=
  if ob_pan o then ([], a) else
  let pre := ob_pre o in
  let post := ob_post o in
  let evs := ob_evs o in
  (* an expiry disarms the timer that fired *)
  let a0 := match ob_op o with OTimer k => ar_set a k None | _ => a end in
  (* the interval sources *)
  let a0 :=
    match ob_op o with
    | OSetPingreqInterval u => ar_set_cfg a0 u (ar_ska a0) (ar_ka a0)
    | OSend p => if (k_type p =? T_CONNECT) && negb (existsb is_error evs)
                 then ar_set_cfg a0 (ar_user a0) None (k_keep_alive p * 1000) else a0
    | _ => a0
    end in
  let a0 := match filter (fun p => (k_type p =? T_CONNACK) && (k_rc p =? 0)) (notifies evs) with
            | p :: _ => match k_ska p with Some sk => ar_set_cfg a0 (ar_user a0) (Some (sk * 1000)) (ar_ka a0) | None => a0 end
            | [] => a0 end in
  (* the receive timeout: a CONNECT sent or received starts from 0; the received CONNECT's keep-alive, then the
     Server Keep Alive of a successful v5.0 CONNACK that is sent, decide it *)
  let a0 :=
    match ob_op o with
    | OSend p =>
      if (k_type p =? T_CONNECT) && negb (existsb is_error evs) then ar_set_rto a0 0
      else if (k_type p =? T_CONNACK) && version_eqb (k_ver p) V50 && (k_rc p =? 0) && sends_type T_CONNACK evs then
        match k_ska p with Some sk => ar_set_rto a0 (sk * 1000 * 3 / 2) | None => a0 end
      else a0
    | ORecv _ _ =>
      match filter (fun p => k_type p =? T_CONNECT) (notifies evs) with
      | p :: _ => ar_set_rto a0 (k_keep_alive p * 1000 * 3 / 2)
      | [] => a0
      end
    | _ => a0
    end in
  match track a0 evs with
  | None => ([1], a)                                          (* cancel of a timer that is not armed *)
  | Some a1 =>
    let flags_ok := Bool.eqb (is_some (ar_send a1)) (c_t_send post) && Bool.eqb (is_some (ar_recv a1)) (c_t_recv post)
                    && Bool.eqb (is_some (ar_resp a1)) (c_t_resp post) in
    let none_armed := negb (is_some (ar_send a1)) && negb (is_some (ar_recv a1)) && negb (is_some (ar_resp a1)) in
    let connected_post := status_eqb (c_status post) Connected in
    let v :=
      if negb flags_ok then [2]                               (* the connection's own flags disagree with its requests *)
      else if match ob_op o with OClosed => negb none_armed | _ => false end then [3]   (* armed after close *)
      else if sends_type T_DISCONNECT evs && negb none_armed then [4]                    (* armed after DISCONNECT sent *)
      else if is_local (ob_op o) && status_eqb (c_status post) Disconnected
              && negb (match resets_of TPingreqSend evs ++ resets_of TPingreqRecv evs ++ resets_of TPingrespRecv evs with [] => true | _ => false end)
           then [5]                                           (* a local call armed a timer while disconnected *)
      else if c_is_client post && connected_post && negb (match sends evs with [] => true | _ => false end)
              && negb (existsb is_close evs) then
        (* client, connected, something was sent: PINGREQ timer re-armed after the last send with the chosen interval *)
        let iv := pick_interval a1 in
        let tail := after_last_send evs [] in
        if 0 <? iv then
          (match rev (resets_of TPingreqSend tail) with
           | ms :: _ => if ms =? iv then [] else [6; ms; iv]
           | [] => [7; iv]
           end)
        else (match resets_of TPingreqSend tail with [] => [] | ms :: _ => [8; ms] end)
      else [] in
    let v2 :=
      match v with
      | _ :: _ => v
      | [] =>
        match ob_op o with
        | ORecv _ _ =>
          (* server side: every accepted packet re-arms the receive timer with 1.5 x keep-alive, never for 0 *)
          let acc := filter (fun p => negb ((k_type p =? T_PINGRESP) || (k_type p =? T_DISCONNECT) || (k_type p =? T_CONNACK))) (notifies evs) in
          (* ... and a protocol-level duplicate that is answered (PUBREC for a repeated QoS 2 PUBLISH) is accepted too *)
          let answered := match (match ob_op o with
                                  | ORecv bytes (PROk p) => match completed_frame (ob_pre o) bytes with Some _ => Some p | None => None end
                                  | _ => None end) with
                          | Some p => (k_type p =? T_PUBLISH) && negb (match sends evs with [] => true | _ => false end)
                                      && (match errors evs with [] => true | _ => false end)
                          | None => false end in
          if negb (c_is_client post) && (negb (match acc with [] => true | _ => false end) || answered) && negb (existsb is_close evs) then
            let to := c_pingreq_recv_to post in
            if 0 <? to then
              (match rev (resets_of TPingreqRecv evs) with
               | ms :: _ => if ms =? to then [] else [9; ms; to]
               | [] => [10; to]
               end)
            else (match resets_of TPingreqRecv evs with [] => [] | ms :: _ => [11; ms] end)
          else
            (* a received CONNECT fixes the timeout: 1.5 x its keep-alive (0 disables) *)
            []
        | OTimer TPingreqSend =>
          if status_eqb (c_status pre) Connected && negb (sends_type T_PINGREQ evs) && negb (existsb is_error evs) then [12] else []
        | OTimer _ =>
          if status_eqb (c_status pre) Connected then
            (if version_eqb (c_version pre) V50
             then (if existsb is_close evs then [] else [13])
             else (if existsb is_close evs then [] else [14]))
          else []
        | OSend p =>
          (* a PINGREQ that is sent arms the response timer iff a timeout is configured *)
          if (k_type p =? T_PINGREQ) && sends_type T_PINGREQ evs then
            let to := c_pingresp_recv_to post in
            if 0 <? to then (if existsb (N.eqb to) (resets_of TPingrespRecv evs) then [] else [15; to])
            else (match resets_of TPingrespRecv evs with [] => [] | ms :: _ => [16; ms] end)
          else []
        | _ => []
        end
      end in
    match v2 with
    | [] =>
      (* the timeout a server uses is the one of the current CONNECT *)
      let v3 :=
        match ob_op o with
        | ORecv _ _ =>
          match filter (fun p => k_type p =? T_CONNECT) (notifies evs) with
          | p :: _ => if c_pingreq_recv_to post =? k_keep_alive p * 1000 * 3 / 2 then [] else [17; c_pingreq_recv_to post; k_keep_alive p]
          | [] => []
          end
        | _ => []
        end in
      (* ... and at every moment it is what the CONNECT received and the CONNACK sent said, not what an earlier
         connection or an expiry left behind *)
      let v4 := match v3 with
                | _ :: _ => v3
                | [] => if c_pingreq_recv_to post =? ar_rto a1 then [] else [18; c_pingreq_recv_to post; ar_rto a1]
                end in
      (* an override of 0 disables PINGREQ sending on the spot, in whatever state the connection is *)
      let v5 := match v4 with
                | _ :: _ => v4
                | [] => match ob_op o with
                        | OSetPingreqInterval (Some 0) => if is_some (ar_send a1) then [19] else []
                        | _ => []
                        end
                end in
      (v5, a1)
    | _ => (v2, a1)
    end
  end.

Definition mon_c15 (cs : list N) : list N :=
  let t := dec_trace cs in
  if negb (tr_ok t) then [0; V_BADCASE]
  else if negb (tr_contract t) then []    (* expiries of unarmed timers etc. are outside the contract *)
  else run_mon judge_c15 (tr_cfg t) armed0 0 (tr_obs t).
