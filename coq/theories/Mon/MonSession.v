(* Monitors for C06 (store / retransmission), C07 (inbound QoS2 exactly once), C13 (topic aliases),
   C14 (Maximum Packet Size) and C05 (no panic, progress), judged on the implementation's trace. *)
From MQ Require Import Base.Prelude Alloc.Alloc Alloc.SetSpec Framing.Framing Conn.Types Conn.TopicAlias Conn.ConnRecord
                       Conn.Step Corr.Tok Corr.ConnCodec Corr.ConnCorr Corr.ConnTrace Mon.Proj Mon.MonGate Mon.MonIds.

Definition pkt_eqb (a b : pkt) : bool := nlist_eqb (enc_pkt a) (enc_pkt b).
Definition store_ids (c : conn) : list N := map k_pid (c_store c).
Definition is_nil {A} (l : list A) : bool := match l with [] => true | _ => false end.

(* ---------------- C06 ---------------- *)
(* which acknowledgement a stored entry waits for *)
Definition awaits (p : pkt) : N := response_of p.

(* ghost of C06, from operations and events only: the outbound exchanges in flight (identifier, QoS of
   the PUBLISH that opened it) and whether the session is persistent *)
Record g06 := mkG06 { g6_open : list (N * N); g6_pers : bool }.
Definition g6_remove (id : N) (l : list (N * N)) : list (N * N) := filter (fun x => negb (fst x =? id)) l.

Definition judge_c06 (g : cfg) (u : g06) (o : obs) : list N * g06 :=
  if ob_pan o then ([], u) else
  let pre := ob_pre o in
  let post := ob_post o in
  let evs := ob_evs o in
  (* ---- ghost update ---- *)
  let accepted_connect :=
    match ob_op o with
    | OSend p => if (k_type p =? T_CONNECT) && negb (existsb is_error evs) then Some p else None
    | ORecv _ _ => match recv_pkt o with
                   | Some p => if (k_type p =? T_CONNECT) && existsb is_notify evs then Some p else None
                   | None => None end
    | _ => None
    end in
  let accepted_connack :=
    match ob_op o with
    | ORecv _ _ => match recv_pkt o with
                   | Some p => if (k_type p =? T_CONNACK) && (k_rc p =? 0) && existsb is_notify evs then Some p else None
                   | None => None end
    | _ => None
    end in
  let pers1 :=
    match accepted_connect with
    | Some p => if version_eqb (k_ver p) V50 then (match k_sei p with Some v => negb (v =? 0) | None => false end)
                else negb (k_flag p)
    | None =>
      match accepted_connack with
      | Some p => if version_eqb (k_ver p) V50
                  then (match k_sei p with Some v => negb (v =? 0) | None => g6_pers u end) else g6_pers u
      | None => match ob_op o with OSetOffline true => true | _ => g6_pers u end
      end
    end in
  let session_ends :=
    match accepted_connect with
    | Some p => k_flag p
    | None => match accepted_connack with
              | Some p => negb (k_flag p) || (version_eqb (k_ver p) V50 && match k_sei p with Some 0 => true | _ => false end)
              | None => false end
    end in
  let open0 := if session_ends then [] else g6_open u in
  let open1 := fold_left (fun l id => g6_remove id l) (released evs) open0 in
  let open2 := fold_left (fun l q => if (k_type q =? T_PUBACK) || (k_type q =? T_PUBCOMP) then g6_remove (k_pid q) l else l) (notifies evs) open1 in
  let open3 := match ob_op o with OErase id => g6_remove id open2 | _ => open2 end in
  let open4 := match ob_op o with
               | OSend p => if (k_type p =? T_PUBLISH) && negb (k_qos p =? 0) && negb (existsb is_error evs)
                            then (k_pid p, k_qos p) :: g6_remove (k_pid p) open3 else open3
               | _ => open3 end in
  let u' := mkG06 open4 pers1 in
  (* (0) an acknowledgement of the wrong kind for the exchange the ghost knows under that identifier
     matches nothing in flight: it must not be accepted *)
  let v0 :=
    match recv_pkt o with
    | Some p =>
      if existsb is_notify evs && negb (existsb is_error evs) then
        match assoc_get (k_pid p) (g6_open u) with
        | Some q => if (k_type p =? T_PUBACK) && (q =? 2) then [26; k_pid p]
                    else if (k_type p =? T_PUBREC) && (q =? 1) then [26; k_pid p] else []
        | None => []
        end
      else []
    | None => []
    end in
  (* (1) an accepted QoS>0 PUBLISH — and an accepted PUBREL — is requested for sending at once or kept in
     the store *)
  let v1 :=
    match ob_op o with
    | OSend p =>
      if (((k_type p =? T_PUBLISH) && negb (k_qos p =? 0)) || (k_type p =? T_PUBREL)) && negb (existsb is_error evs) then
        if existsb (fun q => (k_type q =? k_type p) && (k_pid q =? k_pid p)) (sends evs)
           || memb (k_pid p) (store_ids post) then
          (* while the session is persistent (ghost) it is stored *)
          (if g6_pers u && negb (memb (k_pid p) (store_ids post)) then [27; k_pid p] else [])
        else [1; k_pid p]
      else []
    | _ => []
    end in
  (* (2) stored packets leave the store only for a reason *)
  let removed := filter (fun id => negb (memb id (store_ids post))) (store_ids pre) in
  let v2 :=
    if is_nil removed then [] else
    match ob_op o with
    | OErase id => if negb (forallb (N.eqb id) removed) then [2; id]
                   (* erase_stored_publish erases a PUBLISH: a stored PUBREL under that identifier stays *)
                   else if existsb (fun q => (k_pid q =? id) && negb (k_type q =? T_PUBLISH)) (c_store pre) then [32; id] else []
    | OClosed => if negb (g6_pers u) then [] else [3]
    | OSend p =>
      (* CONNECT with clean start / a refused v5 publish that had just been stored / CONNACK resume dropping oversize entries *)
      if k_type p =? T_CONNECT then (if k_flag p then [] else [4])
      else if k_type p =? T_CONNACK then
        (* dropped on resume: released, and only because it is LARGER than the peer's limit (the limit is inclusive) *)
        (if negb (forallb (fun id => memb id (released evs)) removed) then [5]
         else if negb (forallb (fun q => negb (memb (k_pid q) removed) || (c_mps_send post <? k_size q)) (c_store pre)) then [25]
         else [])
      else if k_type p =? T_PUBLISH then (if forallb (N.eqb (k_pid p)) removed && existsb is_error evs then [] else [6])
      else [7; k_type p]
    | ORecv _ _ =>
      match recv_pkt o with
      | Some p =>
        if k_type p =? T_CONNECT then (if k_flag p then [] else [8])
        else if k_type p =? T_CONNACK then
          (* session not present / session expiry 0: emptied; session present: only oversize entries, each released *)
          (if negb (k_flag p) || (match k_sei p with Some 0 => true | _ => false end) then []
           else if negb (forallb (fun id => memb id (released evs)) removed) then [9]
           else if negb (forallb (fun q => negb (memb (k_pid q) removed) || (c_mps_send post <? k_size q)) (c_store pre)) then [25]
           else [])
        else if (k_type p =? T_PUBACK) || (k_type p =? T_PUBREC) || (k_type p =? T_PUBCOMP) then
          (* exactly the matching acknowledgement *)
          (match removed with
           | [id] => if (id =? k_pid p) && existsb (fun q => (k_pid q =? id) && (awaits q =? k_type p)) (c_store pre) then [] else [10; id]
           | _ => [11]
           end)
        else [12; k_type p]
      | None => [13]
      end
    | _ => [14]
    end in
  (* (3) an acknowledgement that matches nothing in flight: protocol error, nothing erased or freed *)
  let v3 :=
    match recv_pkt o with
    | Some p =>
      let t := k_type p in
      let inflight := if t =? T_PUBACK then c_puback pre else if t =? T_PUBREC then c_pubrec pre
                      else if t =? T_PUBCOMP then c_pubcomp pre else [k_pid p] in
      if ((t =? T_PUBACK) || (t =? T_PUBREC) || (t =? T_PUBCOMP)) && negb (memb (k_pid p) inflight)
         && negb (c_mps_recv pre <? k_size p) && can_receive g pre t then
        if is_nil (errors evs) then [15; t]
        else if existsb is_notify evs then [16; t]
        else if negb (nlist_eqb (proj_state [F_PID; F_PUBSETS; F_STORE] pre) (proj_state [F_PID; F_PUBSETS; F_STORE] post)) then [17; t]
        else []
      else []
    | None => []
    end in
  (* (4) resume: right after the CONNACK, before any other packet, all still-stored packets in store
     order, same ids, DUP on PUBLISH, full topic, no alias *)
  let v4 :=
    let resumed :=
      match ob_op o with
      | OSend p => (k_type p =? T_CONNACK) && (k_rc p =? 0) && existsb (fun q => k_type q =? T_CONNACK) (sends evs)
      | ORecv _ _ => match recv_pkt o with
                     | Some p => (k_type p =? T_CONNACK) && (k_rc p =? 0) && k_flag p && existsb is_notify evs
                                 && negb (match k_sei p with Some 0 => true | _ => false end)
                     | None => false end
      | _ => false
      end in
    if resumed then
      let resent := filter (fun q => negb (k_type q =? T_CONNACK)) (sends evs) in
      let expect := c_store post in
      if negb (list_eqb pkt_eqb (map store_into expect) resent) then [18; N.of_nat (length resent); N.of_nat (length expect)]
      else if negb (forallb (fun q => (if k_type q =? T_PUBLISH then k_dup q && negb (is_nil (k_topic q)) else true)
                                      && match k_alias q with None => true | Some _ => false end) resent) then [19]
      else if negb (forallb (fun q => memb (k_pid q) (store_ids pre)) resent) then [20]
      else []
    else [] in
  (* stored entries always hold their identifier; the store keeps insertion order: surviving
     entries stay in their relative order and new entries go to the end *)
  let key := fun q : pkt => (k_pid q * 16 + k_type q) in
  let kpre := map key (c_store pre) in
  let kpost := map key (c_store post) in
  let kept_pre := filter (fun k => memb k kpost) kpre in
  let kept_post := filter (fun k => memb k kpre) kpost in
  let tail_new := skipn (length kept_post) kpost in
  let v5 := if negb (forallb (fun id => used post id) (store_ids post)) then [21]
            else match ob_op o with
                 | ORestorePackets _ => []
                 | _ => if negb (nlist_eqb kept_pre kept_post) then [22]
                        else if negb (nlist_eqb (firstn (length kept_post) kpost) kept_post) then [23]
                        else if existsb (fun k => memb k kpre) tail_new then [24]
                        else []
                 end in
  (* (6) restore_packets records every entry of the export whose identifier was free (QoS 0 entries are
     skipped), whatever the protocol version of the object — an endpoint created as Undetermined included *)
  let v6 :=
    match ob_op o with
    | ORestorePackets l =>
      let fix go (seen : list N) (l : list pkt) : list N :=
        match l with
        | [] => []
        | q :: t =>
          if (k_type q =? T_PUBLISH) && (k_qos q =? 0) then go seen t
          else if memb (k_pid q) seen || used pre (k_pid q) then go seen t
          else if memb (k_pid q) (store_ids post) && used post (k_pid q) then go (k_pid q :: seen) t
          else [28; k_pid q]
        end in
      go [] l
    | _ => []
    end in
  (* (7) persistence is what the CONNECT / CONNACK / set_offline_publish said (ghost), not what an earlier connection or an
     option left behind: the object's own flag agrees with the ghost, and the close of a session that is not persistent
     leaves nothing stored *)
  let v7 :=
    if negb (Bool.eqb (c_need_store post) pers1) then [31; b2n (c_need_store post); b2n pers1]
    else match ob_op o with
         | OClosed => if negb (g6_pers u) && negb (is_nil (store_ids post)) then [30] else []
         | _ => []
         end in
  (match v0, v1, v2, v3, v4, v5 with
   | _ :: _, _, _, _, _, _ => v0
   | [], _ :: _, _, _, _, _ => v1
   | [], [], _ :: _, _, _, _ => v2
   | [], [], [], _ :: _, _, _ => v3
   | [], [], [], [], _ :: _, _ => v4
   | [], [], [], [], [], _ :: _ => v5
   | [], [], [], [], [], [] => match v6 with _ :: _ => v6 | [] => v7 end
   end, u').

Definition mon_c06 (cs : list N) : list N :=
  let t := dec_trace cs in
  if negb (tr_ok t) then [0; V_BADCASE]
  else if negb (tr_contract t) then []
  else run_mon judge_c06 (tr_cfg t) (mkG06 [] (match tr_obs t with o :: _ => c_need_store (ob_pre o) | [] => false end)) 0 (tr_obs t).

(* ---------------- C07 ---------------- *)
Record g07 := mkG07 { g_delivered : list N }.   (* ids notified since their last release point *)

Definition judge_c07 (g : cfg) (gh : g07) (o : obs) : list N * g07 :=
  if ob_pan o then ([], gh) else
  let pre := ob_pre o in
  let post := ob_post o in
  let evs := ob_evs o in
  let d0 := g_delivered gh in
  (* a new session starts / the session ends *)
  let reset :=
    match ob_op o with
    | OSend p => (k_type p =? T_CONNECT) && k_flag p && negb (existsb is_error evs)
    | OClosed => negb (c_need_store pre)
    | ORecv _ _ =>
      match recv_pkt o with
      | Some p => existsb is_notify evs &&
                  (((k_type p =? T_CONNECT) && k_flag p)
                   || ((k_type p =? T_CONNACK) && (k_rc p =? 0) && (negb (k_flag p) || match k_sei p with Some 0 => true | _ => false end)))
      | None => false
      end
    | ORestoreQos2 _ => true
    | _ => false
    end in
  let d1 := match ob_op o with ORestoreQos2 l => l | _ => if reset then [] else d0 end in
  (* notifications of QoS2 PUBLISH in this call *)
  let notified := map k_pid (filter (fun p => (k_type p =? T_PUBLISH) && (k_qos p =? 2)) (notifies evs)) in
  let dup_delivery := existsb (fun id => memb id d1) notified || negb (nodupb notified) in
  (* the QoS2 PUBLISH received in this call, if it passed validation (no error event) *)
  let swallowed :=
    match recv_pkt o with
    | Some p =>
      (k_type p =? T_PUBLISH) && (k_qos p =? 2) && is_nil (errors evs) && negb (memb (k_pid p) d1)
      && negb (memb (k_pid p) notified)
    | None => false
    end in
  let d2 := fold_left (fun l id => add_once id l) notified d1 in
  (* release points: PUBREL received, error PUBREC sent *)
  let rel_in := map k_pid (filter (fun p => k_type p =? T_PUBREL) (notifies evs)) in
  let rel_out := map k_pid (filter (fun p => (k_type p =? T_PUBREC) && k_rc_present p && (128 <=? k_rc p)) (sends evs)) in
  let d3 := fold_left (fun l id => remove_all id l) (rel_in ++ rel_out) d2 in
  (* a retransmission (identifier already notified, not yet released) that passed validation on an
     established connection is answered with PUBREC, whether or not automatic responses are on *)
  let unanswered :=
    match recv_pkt o with
    | Some p =>
      (k_type p =? T_PUBLISH) && (k_qos p =? 2) && is_nil (errors evs) && memb (k_pid p) d1
      && status_eqb (c_status pre) Connected
      && negb (existsb (fun q => (k_type q =? T_PUBREC) && (k_pid q =? k_pid p)) (sends evs))
    | None => false
    end in
  let v :=
    if dup_delivery then [1]
    else if swallowed then [2]
    else if negb (nlist_eqb (sort_n d3) (sort_n (c_qos2 post))) then [3; N.of_nat (length d3); N.of_nat (length (c_qos2 post))]
    else if unanswered then [4]
    else [] in
  (v, mkG07 d3).

Definition mon_c07 (cs : list N) : list N :=
  let t := dec_trace cs in
  if negb (tr_ok t) then [0; V_BADCASE]
  else if negb (tr_contract t) then []
  else run_mon judge_c07 (tr_cfg t) (mkG07 []) 0 (tr_obs t).

(* ---------------- C13 ---------------- *)
(* the receiver's alias table, as a spec-conformant peer would hold it for this connection *)
Record g13 := mkG13 { g_rx : list (N * list N);     (* what the peer has learnt from what we sent *)
                      g_rr : list (N * list N) }.   (* what we have learnt from what the peer sent *)

Definition judge_c13 (g : cfg) (gh : g13) (o : obs) : list N * g13 :=
  if ob_pan o then ([], gh) else
  let pre := ob_pre o in
  let post := ob_post o in
  let evs := ob_evs o in
  (* bindings do not survive the connection *)
  let fresh :=
    match ob_op o with
    | OClosed => true
    | OSend p => (k_type p =? T_CONNECT) && negb (existsb is_error evs)
    | ORecv _ _ => match recv_pkt o with Some p => (k_type p =? T_CONNECT) && existsb is_notify evs | None => false end
    | _ => false
    end in
  let rx0 := if fresh then [] else g_rx gh in
  let rr0 := if fresh then [] else g_rr gh in
  let peer_max := match c_ta_send post with Some s => ts_max s | None => match c_ta_send pre with Some s => ts_max s | None => 0 end end in
  (* the topic the application asked for *)
  let intended : option (list N) :=
    match ob_op o with
    | OSend p => if k_type p =? T_PUBLISH then
                   (if is_nil (k_topic p) then match k_alias p with Some a => assoc_get a rx0 | None => None end else Some (k_topic p))
                 else None
    | _ => None
    end in
  (* walk through the PUBLISH packets requested for sending *)
  let step1 (acc : list N * list (N * list N)) (q : pkt) : list N * list (N * list N) :=
    let '(v, rx) := acc in
    if negb (is_nil v) then acc else
    if negb ((k_type q =? T_PUBLISH) && version_eqb (k_ver q) V50) then acc else
    match k_alias q with
    | Some a =>
      if (a =? 0) || (peer_max <? a) then ([1; a; peer_max], rx)
      else if is_nil (k_topic q) then
        match assoc_get a rx with
        | Some t => (match intended with
                     | Some it => if nlist_eqb it t || k_dup q then [] else [2; a]
                     | None => [] end, rx)
        | None => ([3; a], rx)                      (* empty topic with an alias the peer never saw *)
        end
      else ([], (a, k_topic q) :: assoc_remove a rx)
    | None => if is_nil (k_topic q) then ([4], rx) else
              (match intended with
               | Some it => if nlist_eqb it (k_topic q) || k_dup q then [] else [5]
               | None => [] end, rx)
    end in
  let '(v1, rx1) := fold_left step1 (sends evs) ([], rx0) in
  (* retransmitted stored packets: full topic, no alias *)
  let v2 :=
    match v1 with
    | _ :: _ => v1
    | [] =>
      if forallb (fun q => negb ((k_type q =? T_PUBLISH) && version_eqb (k_ver q) V50)
                           || (negb (is_nil (k_topic q)) && match k_alias q with None => true | Some _ => false end)) (c_store post)
      then [] else [6]
    end in
  (* receive side: delivered with the topic bound on this connection, or rejected *)
  let '(v3, rr1) :=
    match recv_pkt o with
    | Some p =>
      if (k_type p =? T_PUBLISH) && version_eqb (k_ver p) V50 && negb (c_mps_recv pre <? k_size p) then
        let delivered := filter (fun q => k_type q =? T_PUBLISH) (notifies evs) in
        match k_alias p with
        | Some a =>
          if is_nil (k_topic p) then
            match delivered with
            | q :: _ => (match assoc_get a rr0 with
                         | Some t => if nlist_eqb (k_topic q) t then [] else [7; a]
                         | None => [8; a] end, rr0)
            | [] =>
              (* an alias that IS bound on this connection must not be rejected as invalid *)
              (match assoc_get a rr0 with
               | Some _ => if memb E_TOPIC_ALIAS_INVALID (errors evs) then [12; a] else []
               | None => [] end, rr0)
            end
          else
            (* a binding is learnt only from a packet that was accepted *)
            (match delivered with
             | q :: _ => if nlist_eqb (k_topic q) (k_topic p) then [] else [9]
             | [] => [] end,
             (* ... an error about an automatic response that is too large for the peer does not reject the packet *)
             if forallb (fun e => e =? E_PACKET_TOO_LARGE) (errors evs) then (a, k_topic p) :: assoc_remove a rr0 else rr0)
        | None =>
          (match delivered with
           | q :: _ => if nlist_eqb (k_topic q) (k_topic p) && negb (is_nil (k_topic q)) then [] else [10]
           | [] => [] end, rr0)
        end
      else ([], rr0)
    | None => ([], rr0)
    end in
  (* after close both tables are gone *)
  let v4 := match ob_op o with
            | OClosed => if match c_ta_send post, c_ta_recv post with None, None => true | _, _ => false end then [] else [11]
            | _ => [] end in
  (match v2, v3, v4 with
   | _ :: _, _, _ => v2
   | [], _ :: _, _ => v3
   | [], [], _ => v4
   end, mkG13 rx1 rr1).

Definition mon_c13 (cs : list N) : list N :=
  let t := dec_trace cs in
  if negb (tr_ok t) then [0; V_BADCASE]
  else if negb (tr_contract t) then []
  else run_mon judge_c13 (tr_cfg t) (mkG13 [] []) 0 (tr_obs t).

(* ---------------- C14 ---------------- *)
Definition judge_c14 (g : cfg) (u : unit) (o : obs) : list N * unit :=
  if ob_pan o then ([], u) else
  let pre := ob_pre o in
  let post := ob_post o in
  let evs := ob_evs o in
  (* the limit the peer announced for this connection: set when its CONNECT / CONNACK is processed *)
  let changes_limit :=
    match ob_op o with
    | ORecv _ _ => match recv_pkt o with Some p => (k_type p =? T_CONNECT) || (k_type p =? T_CONNACK) | None => false end
    | _ => false
    end in
  let limit := if changes_limit then c_mps_send post else c_mps_send pre in
  let v1 :=
    match filter (fun q => version_eqb (k_ver q) V50 && (limit <? k_size q)) (sends evs) with
    | q :: _ => [1; k_type q; k_size q; limit]
    | [] => []
    end in
  (* oversize stored packets are dropped with their identifier released *)
  let v2 :=
    match v1 with
    | _ :: _ => v1
    | [] =>
      (* checked where the library retransmits: right after a successful CONNACK *)
      if negb (is_resend o) then []
      else if forallb (fun q => negb (version_eqb (c_version post) V50) || (k_size q <=? c_mps_send post)) (c_store post)
           && forallb (fun id => memb id (store_ids post) || negb (used post id) || negb (memb id (store_ids pre))) (store_ids pre)
      then [] else [2]
    end in
  (* inbound: larger than the locally announced maximum: not delivered, DISCONNECT 'Packet too large' *)
  let v3 :=
    match v2 with
    | _ :: _ => v2
    | [] =>
      match ob_op o with
      | ORecv bytes _ =>
        match completed_frame pre bytes with
        | Some (t, body) =>
          if c_mps_recv pre <? remaining_length_to_total_size (N.of_nat (length body)) then
            if existsb is_notify evs then [3]
            else if negb (memb E_PACKET_TOO_LARGE (errors evs)) then [4]
            else if status_eqb (c_status pre) Connected && negb (c_mps_send pre <? 3)
                    && negb (existsb (fun q => (k_type q =? T_DISCONNECT) && (k_rc q =? 149)) (sends evs)) then [5]
            else if negb (existsb is_close evs) then [6]
            else []
          else []
        | None => []
        end
      | _ => []
      end
    end in
  (v3, u).

Definition mon_c14 (cs : list N) : list N :=
  let t := dec_trace cs in
  if negb (tr_ok t) then [0; V_BADCASE]
  else run_mon judge_c14 (tr_cfg t) tt 0 (tr_obs t).

(* ---------------- C05 ---------------- *)
Definition judge_c05 (g : cfg) (u : unit) (o : obs) : list N * unit :=
  if ob_pan o then ([1], u) else                                    (* a panic under the contract *)
  let pre := ob_pre o in
  let post := ob_post o in
  let evs := ob_evs o in
  let inflight := N.of_nat (length (c_suback pre) + length (c_unsuback pre) + length (c_puback pre)
                            + length (c_pubrec pre) + length (c_pubcomp pre)) in
  if (3 * N.of_nat (length (c_store pre)) + inflight + 8 <? N.of_nat (length evs)) then ([2; N.of_nat (length evs)], u) else
  match ob_op o with
  | ORecv bytes _ =>
    match completed_frame pre bytes with
    | Some (t, body) =>
      (* a complete frame is delivered, answered as a duplicate, or reported through an error *)
      if existsb is_notify evs || existsb is_error evs
         || existsb (fun q => (k_type q =? T_PUBREC)) (sends evs) then ([], u)
      else
        (* known finding F-05c: a duplicate QoS2 PUBLISH that arrives while the connection is not
           established can be neither answered nor delivered and is dropped without an error event *)
        match recv_pkt o with
        | Some p => if (k_type p =? T_PUBLISH) && (k_qos p =? 2) && memb (k_pid p) (c_qos2 pre)
                       && negb (status_eqb (c_status pre) Connected) then ([91; t], u) else ([3; t], u)
        | None => ([3; t], u)
        end
    | None =>
      (* bytes are consumed: the call makes progress *)
      match ob_ret o with
      | [unread] => if negb (is_nil bytes) && (N.of_nat (length bytes) <=? unread) && is_nil evs then ([4], u) else ([], u)
      | _ => ([5], u)
      end
    end
  | OClosed =>
    if status_eqb (c_status post) Disconnected && (rstate_n (pb_st (c_pb post)) =? 0) then ([], u) else ([6], u)
  | _ => ([], u)
  end.

Definition mon_c05 (cs : list N) : list N :=
  let t := dec_trace cs in
  if negb (tr_ok t) then [0; V_BADCASE]
  else if negb (tr_contract t) then []
  else run_mon judge_c05 (tr_cfg t) tt 0 (tr_obs t).
