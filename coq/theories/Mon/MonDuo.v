(* C01 — two endpoints built on the library interoperate, even across transport loss: judged on
   the traces of a client object and a server object wired by two byte queues (harness
   conn_duo.rs: arbitrary delivery order and fragmentation per direction, transport losses at
   arbitrary points with session resumption, workload from both sides). *)
From MQ Require Import Base.Prelude Alloc.Alloc Alloc.SetSpec Framing.Framing Conn.Types Conn.TopicAlias Conn.ConnRecord
                       Conn.Step Corr.Tok Corr.ConnCodec Corr.ConnCorr Corr.ConnTrace Mon.Proj Mon.MonGate Mon.MonIds.

Record duo := mkDuo { du_c : trace; du_s : trace; du_sched : list N; du_drained : bool; du_losses : N; du_bad : N }.

Definition dec_duo (cs : list N) : option duo :=
  match cs with
  | _case_seed :: lc :: t =>
    let nc := N.to_nat lc in
    let tc := firstn nc t in
    match skipn nc t with
    | ls :: t2 =>
      let ns := N.to_nat ls in
      let ts := firstn ns t2 in
      match skipn ns t2 with
      | nsch :: t3 =>
        let k := N.to_nat nsch in
        match skipn k t3 with
        | [dr; lo; bad] => Some (mkDuo (dec_trace tc) (dec_trace ts) (firstn k t3) (n2b dr) lo bad)
        | _ => None
        end
      | [] => None
      end
    | [] => None
    end
  | _ => None
  end.

Definition is_pub (p : pkt) : bool := k_type p =? T_PUBLISH.

(* accepted publishes of one side: (qos, tag = payload length, topic), and the identifier of each *)
Definition accepted_with_pid (l : list obs) : list (N * N * topic * N) :=
  flat_map (fun o => match ob_op o with
                     | OSend p => if is_pub p && negb (existsb is_error (ob_evs o)) && negb (ob_pan o)
                                  then [(k_qos p, k_paylen p, k_topic p, k_pid p)] else []
                     | _ => [] end) l.
Definition accepted_pubs (l : list obs) : list (N * N * topic) := map fst (accepted_with_pid l).

(* known finding F-01a: identifiers that a side released while RESUMING a session (CONNACK received by
   the client / sent by the server): stored packets dropped because their stored form — full topic, no
   alias — is larger than the peer's Maximum Packet Size although the packet that was sent (with the
   alias) fitted.  The receiver may already hold such a QoS 2 message, keeps its identifier "handled",
   and swallows the next message that reuses the identifier; the dropped message itself may be lost. *)
Definition is_resume_call (o : obs) : bool :=
  match ob_op o with
  | OSend p => k_type p =? T_CONNACK
  | ORecv _ (PROk p) => k_type p =? T_CONNACK
  | _ => false
  end.
Definition dropped_on_resume (l : list obs) : list N :=
  flat_map (fun o => if is_resume_call o then released (ob_evs o) else []) l.
Definition split_known (l : list obs) : list (N * N * topic) * list (N * N * topic) :=
  let d := dropped_on_resume l in
  let a := accepted_with_pid l in
  (map fst (filter (fun x => negb (existsb (N.eqb (snd x)) d)) a),
   map fst (filter (fun x => existsb (N.eqb (snd x)) d) a)).
Definition K_F01A : N := 93.

(* publishes notified to the application of one side: (tag, topic) *)
Definition notified_pubs (l : list obs) : list (N * topic) :=
  flat_map (fun o => map (fun q => (k_paylen q, k_topic q)) (filter is_pub (notifies (ob_evs o)))) l.

Definition count_tag (tag : N) (l : list (N * topic)) : N := N.of_nat (length (filter (fun x => fst x =? tag) l)).

Definition topic_eqb (a b : topic) : bool := nlist_eqb a b.

(* delivery of the messages of one direction *)
Fixpoint judge_delivery (losses : N) (sent : list (N * N * topic)) (got : list (N * topic)) : list N :=
  match sent with
  | [] => []
  | (qos, tag, tp) :: t =>
    let c := count_tag tag got in
    let topic_ok := forallb (fun x => negb (fst x =? tag) || match tp, snd x with [], _ => true | _, [] => true | a, b => topic_eqb a b end) got in
    if (qos =? 2) && negb (c =? 1) then [5; tag; c]
    else if (qos =? 1) && ((c =? 0) || ((losses =? 0) && negb (c =? 1))) then [6; tag; c]
    else if (qos =? 0) && (1 <? c) then [7; tag; c]
    else if negb topic_ok then [9; tag]
    else judge_delivery losses t got
  end.

Definition last_state (t : trace) : option conn :=
  match rev (tr_obs t) with o :: _ => Some (ob_post o) | [] => None end.

Definition quiescent (g : cfg) (c : conn) : list N :=
  if negb (match a_pool (c_pid c) with [(l, h)] => (l =? 1) && (h =? g_idmax g) | _ => false end) then [1]
  else if negb (match c_store c with [] => true | _ => false end) then [2]
  else if negb (c_send_count c =? 0) then [3]
  else if negb (match c_puback c ++ c_pubrec c ++ c_pubcomp c ++ c_suback c ++ c_unsuback c with [] => true | _ => false end) then [4]
  else [].

Definition first_idx (f : obs -> bool) (l : list obs) : option N :=
  (fix go (i : N) (l : list obs) := match l with [] => None | o :: t => if f o then Some i else go (i + 1) t end) 0 l.

Definition mon_c01 (cs : list N) : list N :=
  match dec_duo cs with
  | None => [0; V_BADCASE]
  | Some d =>
    let oc := tr_obs (du_c d) in
    let os := tr_obs (du_s d) in
    if negb (tr_ok (du_c d) && tr_ok (du_s d)) then [0; V_BADCASE]
    else
    (* 1. nothing panics; 2. neither side reports an error about the other *)
    match first_idx ob_pan oc, first_idx ob_pan os with
    | Some i, _ => [i; V_MONITOR; 1; 0]
    | _, Some i => [i; V_MONITOR; 1; 1]
    | None, None =>
      match first_idx (fun o => existsb is_error (ob_evs o)) oc, first_idx (fun o => existsb is_error (ob_evs o)) os with
      | Some i, _ => [i; V_MONITOR; 2; 0]
      | _, Some i => [i; V_MONITOR; 2; 1]
      | None, None =>
        if negb (du_drained d) then [0; V_MONITOR; 3]                (* the exchange does not come to rest *)
        else if negb (du_bad d =? 0) then [0; V_MONITOR; 4; du_bad d]  (* a delivered payload differs *)
        else
          let '(ck, cd) := split_known oc in
          let '(sk, sd) := split_known os in
          match judge_delivery (du_losses d) ck (notified_pubs os) with
          | (_ :: _) as v => 0 :: V_MONITOR :: v ++ [0]
          | [] =>
            match judge_delivery (du_losses d) sk (notified_pubs oc) with
            | (_ :: _) as v => 0 :: V_MONITOR :: v ++ [1]
            | [] =>
              match last_state (du_c d), last_state (du_s d) with
              | Some c, Some s =>
                match quiescent (tr_cfg (du_c d)) c, quiescent (tr_cfg (du_s d)) s with
                | (_ :: _) as v, _ => 0 :: V_MONITOR :: 8 :: v ++ [0]
                | _, (_ :: _) as v => 0 :: V_MONITOR :: 8 :: v ++ [1]
                | [], [] =>
                  (* nothing else is wrong: the messages whose identifier went through an oversize drop on resume *)
                  match judge_delivery (du_losses d) cd (notified_pubs os), judge_delivery (du_losses d) sd (notified_pubs oc) with
                  | (_ :: _) as v, _ => 0 :: V_MONITOR :: K_F01A :: v ++ [0]
                  | _, (_ :: _) as v => 0 :: V_MONITOR :: K_F01A :: v ++ [1]
                  | [], [] => []
                  end
                end
              | _, _ => []
              end
            end
          end
      end
    end
  end.

(* correspondence: both objects against the model, full digest and all events; server indices + 1000 *)
Definition chk_duo (cs : list N) : list N :=
  match dec_duo cs with
  | None => [0; V_BADCASE]
  | Some d =>
    if negb (tr_ok (du_c d) && tr_ok (du_s d)) then [0; V_BADCASE]
    else match proj_obs 5 (tr_cfg (du_c d)) 0 (tr_obs (du_c d)) with
         | [] => proj_obs 5 (tr_cfg (du_s d)) 1000 (tr_obs (du_s d))
         | v => v
         end
  end.
