(* one import for the in-Coq evaluation of the checkers and monitors *)
From MQ Require Export Corr.ConnCorr Corr.ConnTrace Mon.Proj Mon.MonGate Mon.MonTimers Mon.MonIds Mon.MonSession Mon.MonPair Corr.PropsCorr Corr.PkCorr Mon.MonDuo Mon.MonContract.
