(* Monitors for the gating properties C11 (send), C17 (receive) and the close ordering C19,
   judged on the implementation's own trace (events, state digests). *)
From MQ Require Import Base.Prelude Alloc.Alloc Framing.Framing Conn.Types Conn.TopicAlias Conn.ConnRecord
                       Conn.Step Corr.Tok Corr.ConnCodec Corr.ConnCorr Corr.ConnTrace Mon.Proj Spec.MqttRules.

(* ---------------- C19 ---------------- *)
Definition terminal_pkt (p : pkt) : bool :=
  (k_type p =? T_DISCONNECT) || ((k_type p =? T_CONNACK) && negb (k_rc p =? 0)).

Fixpoint no_send_after_close (l : list event) : bool :=
  match l with
  | [] => true
  | EClose :: t => forallb (fun e => negb (is_send e)) t
  | _ :: t => no_send_after_close t
  end.

Fixpoint terminal_sends_closed (l : list event) : bool :=
  match l with
  | [] => true
  | ESend p _ :: t => (if terminal_pkt p then existsb is_close t else true) && terminal_sends_closed t
  | _ :: t => terminal_sends_closed t
  end.

Definition close_ordered (l : list event) : bool := no_send_after_close l && terminal_sends_closed l.

Definition judge_c19 (g : cfg) (u : unit) (o : obs) : list N * unit :=
  if ob_pan o then ([], u) else
  if negb (no_send_after_close (ob_evs o)) then ([1], u)
  else if negb (terminal_sends_closed (ob_evs o)) then ([2], u)
  else
    match ob_op o with
    | OTimer TPingreqRecv | OTimer TPingrespRecv =>
      if status_eqb (c_status (ob_pre o)) Connected && negb (existsb is_close (ob_evs o)) then ([3], u) else ([], u)
    | _ => ([], u)
    end.

Definition mon_c19 (cs : list N) : list N :=
  let t := dec_trace cs in
  if negb (tr_ok t) then [0; V_BADCASE] else run_mon judge_c19 (tr_cfg t) tt 0 (tr_obs t).

(* ---------------- C11 ---------------- *)
(* everything except the packet-id allocator *)
Definition NON_PID_FIELDS : list N := [0; 2; 3; 4; 5; 6; 7; 8; 9; 10; 11; 12; 13; 14; 15; 16; 17].

Definition pkt_wf (p : pkt) : bool :=
  match k_ver p with V311 => (1 <=? k_type p) && (k_type p <=? 14) | V50 => (1 <=? k_type p) && (k_type p <=? 15) | VUndet => false end.

Definition judge_c11 (g : cfg) (u : unit) (o : obs) : list N * unit :=
  match ob_op o with
  | OSend p =>
    if ob_pan o then ([], u) else
    let pre := ob_pre o in
    let ms := may_send (g_role g) (c_version pre) (c_status pre) p in
    if negb ms && negb (match sends (ob_evs o) with [] => true | _ => false end) then ([1; k_type p], u)   (* passed on although not allowed *)
    (* the storing exception only covers the connection STATE: a packet of the wrong protocol version
       or of a kind the role may not originate is refused even when it could be stored *)
    else if negb ms then
      let excepted := storable_kind p && c_need_store pre
                      (* a PUBLISH is only kept for later while a connection is being made or offline publishing is on *)
                      && (negb (k_type p =? T_PUBLISH) || negb (status_eqb (c_status pre) Disconnected) || c_offline pre)
                      && version_eqb (c_version pre) (k_ver p) && role_may_originate (g_role g) (k_ver p) (k_type p) in
      if match errors (ob_evs o) with [] => true | _ => false end then
        (* accepted without a send: only the storing exception allows that *)
        (if excepted then ([], u) else ([2; k_type p], u))
      (* refused (whether or not it could have been stored): only errors (+ release of the packet's id),
         state as if the call had not been made *)
      else if existsb is_notify (ob_evs o) || existsb is_close (ob_evs o) then ([3; k_type p], u)
      else if negb (nlist_eqb (proj_state NON_PID_FIELDS pre) (proj_state NON_PID_FIELDS (ob_post o))) then ([4; k_type p], u)
      else
        let rel := released (ob_evs o) in
        match rel with
        | [] => if nlist_eqb (unpairs (a_pool (c_pid pre))) (unpairs (a_pool (c_pid (ob_post o)))) then ([], u) else ([5; k_type p], u)
        | [id] =>
          if negb (id =? k_pid p) then ([6; k_type p], u)
          else if pm_is_used (c_pid pre) id && negb (pm_is_used (c_pid (ob_post o)) id) then ([], u) else ([7; k_type p], u)
        | _ => ([8; k_type p], u)
        end
    else ([], u)
  | _ => ([], u)
  end.

Definition mon_c11 (cs : list N) : list N :=
  let t := dec_trace cs in
  if negb (tr_ok t) then [0; V_BADCASE] else run_mon judge_c11 (tr_cfg t) tt 0 (tr_obs t).

(* ---------------- C17 ---------------- *)
(* the frame (if any) that completes in this recv() call, by the framing model run on the
   implementation's builder state *)
Definition completed_frame (pre : conn) (bytes : list N) : option (N * list N) :=
  match feed (c_pb pre) bytes with
  | (FComplete hdr body, _, _) => Some (hd 0 hdr / 16, body)
  | _ => None
  end.

Definition SESSION_FIELDS : list N := [1; 3; 4; 5; 14].   (* ids, in-flight sets, need_store, store, qos2 *)

Definition judge_c17 (g : cfg) (u : unit) (o : obs) : list N * unit :=
  match ob_op o with
  | ORecv bytes _ =>
    if ob_pan o then ([], u) else
    let pre := ob_pre o in
    match completed_frame pre bytes with
    | None => ([], u)
    | Some (t, body) =>
      if c_mps_recv pre <? remaining_length_to_total_size (N.of_nat (length body)) then ([], u) (* oversize: C14's *)
      else
      match c_version pre with
      | VUndet =>
        (* version not determined: only a CONNECT of level 4 or 5 is acted upon *)
        let good := (t =? 1) && (7 <=? N.of_nat (length body)) && ((nth 6 body 0 =? 4) || (nth 6 body 0 =? 5))
                    && negb (match g_role g with RClient => true | _ => false end) (* a client never accepts CONNECT *) in
        if good then
          if ver_n (c_version (ob_post o)) =? nth 6 body 0 then ([], u) else ([5], u)
        else if existsb is_notify (ob_evs o) || negb (match sends (ob_evs o) with [] => true | _ => false end) then ([6], u)
        else if match errors (ob_evs o) with [] => true | _ => false end then ([7], u)
        else if negb (nlist_eqb (proj_state (F_VER :: F_STATUS :: SESSION_FIELDS) pre)
                                 (proj_state (F_VER :: F_STATUS :: SESSION_FIELDS) (ob_post o))) then ([8], u)
        else ([], u)
      | v =>
        if negb (may_receive (g_role g) v t) then
          (* a kind the peer of this role never sends: protocol error, never delivered or acted upon *)
          if existsb is_notify (ob_evs o) then ([1; t], u)
          else if match errors (ob_evs o) with [] => true | _ => false end then ([2; t], u)
          (* a kind that exists (1..15) is reported as a PROTOCOL error; the reserved nibble 0 is malformed *)
          else if (1 <=? t) && (t <=? 15) && negb (match g_role g with RAny => true | _ => false end)
                  && negb (existsb (N.eqb E_PROTOCOL) (errors (ob_evs o))) then ([4; t], u)
          else if negb (nlist_eqb (proj_state SESSION_FIELDS pre) (proj_state SESSION_FIELDS (ob_post o))) then ([3; t], u)
          else ([], u)
        else if ((t =? 1) && negb (status_eqb (c_status pre) Disconnected)) || ((t =? 2) && status_eqb (c_status pre) Connected) then
          (* CONNECT / CONNACK on an established connection (for a CONNECT: also while its predecessor awaits the CONNACK) *)
          if existsb is_notify (ob_evs o) then ([11; t], u)
          else if match errors (ob_evs o) with [] => true | _ => false end then ([12; t], u)
          else if negb (nlist_eqb (proj_state SESSION_FIELDS pre) (proj_state SESSION_FIELDS (ob_post o))) then ([13; t], u)
          else ([], u)
        else ([], u)
      end
    end
  | _ => ([], u)
  end.

Definition mon_c17 (cs : list N) : list N :=
  let t := dec_trace cs in
  if negb (tr_ok t) then [0; V_BADCASE] else run_mon judge_c17 (tr_cfg t) tt 0 (tr_obs t).

(* ---------------- C09 at the connection level ---------------- *)
(* Connection::recv consumes exactly what the framing model consumes from the buffer (at most one
   packet; after an over-long Remaining Length framing resumes at the next byte), produces no event
   for an incomplete frame, and keeps the partial frame the model keeps.  The framing model is the
   one proved chunking-independent in Framing/FramingProofs.v. *)
Definition judge_c09 (g : cfg) (u : unit) (o : obs) : list N * unit :=
  if ob_pan o then ([], u) else
  match ob_op o with
  | ORecv bytes _ =>
    let '(r, pb', rest) := feed (c_pb (ob_pre o)) bytes in
    if negb (nlist_eqb (ob_ret o) [N.of_nat (length rest)]) then ([1; N.of_nat (length rest)], u)
    else match r with
         | FIncomplete =>
           if negb (match ob_evs o with [] => true | _ => false end) then ([2], u)
           else if negb (nlist_eqb (enc_group F_PB (set_pb (ob_pre o) pb')) (enc_group F_PB (ob_post o))) then ([3], u)
           else ([], u)
         | FError _ => if existsb is_error (ob_evs o) then ([], u) else ([4], u)
         | FComplete _ _ => ([], u)
         end
  | _ => ([], u)
  end.

Definition mon_c09 (cs : list N) : list N :=
  let t := dec_trace cs in
  if negb (tr_ok t) then [0; V_BADCASE] else run_mon judge_c09 (tr_cfg t) tt 0 (tr_obs t).
