(* Paired cases for C10 (reused object vs fresh object) and C16 (original vs restored object):
   the harness runs a first history on object A, ends it (transport closed, application-held
   ids released), then runs one common script S on A and on a second object B built from
   nothing but the options (C10) or the options and A's export (C16).  The monitor compares the
   two IMPLEMENTATION traces with each other; the correspondence checks both against the model. *)
From MQ Require Import Base.Prelude Alloc.Alloc Alloc.SetSpec Framing.Framing Conn.Types Conn.TopicAlias Conn.ConnRecord
                       Conn.Step Corr.Tok Corr.ConnCodec Corr.ConnCorr Corr.ConnTrace Mon.Proj Mon.MonGate Mon.MonIds.

Record pair_case := mkPair { pc_kind : N; pc_ka : nat; pc_kb : nat; pc_a : trace; pc_b : trace }.

Definition dec_pair (cs : list N) : option pair_case :=
  match cs with
  | kind :: ka :: kb :: lenA :: rest =>
    let n := N.to_nat lenA in
    Some (mkPair kind (N.to_nat ka) (N.to_nat kb) (dec_trace (firstn n rest)) (dec_trace (skipn n rest)))
  | _ => None
  end.

(* the call that establishes the session the two objects are compared in *)
Definition session_point (kind : N) (o : obs) : bool :=
  let evs := ob_evs o in
  match ob_op o with
  | OSend p =>
    if kind =? 10 then
      ((k_type p =? T_CONNECT) && k_flag p && negb (existsb is_error evs))
      || ((k_type p =? T_CONNACK) && negb (k_flag p) && (k_rc p =? 0) && existsb (fun q => k_type q =? T_CONNACK) (sends evs))
    else (k_type p =? T_CONNECT) && negb (existsb is_error evs)
  | ORecv _ _ =>
    match recv_pkt o with
    | Some p =>
      existsb is_notify evs &&
      (if kind =? 10 then ((k_type p =? T_CONNECT) && k_flag p) || ((k_type p =? T_CONNACK) && (k_rc p =? 0) && negb (k_flag p))
       else (k_type p =? T_CONNECT))
    | None => false
    end
  | _ => false
  end.

Definition not_released (e : event) : bool := match e with EReleased _ => false | _ => true end.

Fixpoint first_diff_field (fs : list N) (a b : conn) : N :=
  match fs with
  | [] => 99
  | f :: t => if nlist_eqb (enc_group f a) (enc_group f b) then first_diff_field t a b else f
  end.

Fixpoint cmp_pair (kind : N) (idx : N) (est : bool) (la lb : list obs) : list N :=
  match la, lb with
  | [], [] => []
  | a :: ta, b :: tb =>
    if xorb (ob_pan a) (ob_pan b) then [idx; V_MONITOR; 2]
    else if ob_pan a then []
    else if negb est && negb (match ob_op a with OSend _ => true | ORecv _ _ => true | _ => false end) then
      (* the handshake that was to establish the common session did not complete (e.g. the CONNACK
         was refused): the first object legitimately still carries its old session *)
      []
    else
      let est' := est || session_point kind a in
      (* identifiers of the old session may be released up to and including the call that starts the new one *)
      let ea := if est then ob_evs a else filter not_released (ob_evs a) in
      let eb := if est then ob_evs b else filter not_released (ob_evs b) in
      if negb (nlist_eqb (enc_events ea) (enc_events eb)) then [idx; V_MONITOR; 3]
      else if est' && negb (nlist_eqb (ob_ret a) (ob_ret b)) then [idx; V_MONITOR; 4]
      else if est' && negb (nlist_eqb (proj_state ALL_FIELDS (ob_post a)) (proj_state ALL_FIELDS (ob_post b)))
        then [idx; V_MONITOR; 5; first_diff_field ALL_FIELDS (ob_post a) (ob_post b)]
      else cmp_pair kind (idx + 1) est' ta tb
  | _, _ => [idx; V_MONITOR; 6]
  end.

(* monitor: verdict index = call index in A *)
Definition mon_pair (cs : list N) : list N :=
  match dec_pair cs with
  | None => [0; V_BADCASE]
  | Some pc =>
    if negb (tr_ok (pc_a pc) && tr_ok (pc_b pc)) then [0; V_BADCASE]
    else cmp_pair (pc_kind pc) (N.of_nat (pc_ka pc)) false (skipn (pc_ka pc) (tr_obs (pc_a pc))) (skipn (pc_kb pc) (tr_obs (pc_b pc)))
  end.

(* correspondence: both traces against the model (full digest, all events); B's indices + 1000 *)
Definition chk_pair (cs : list N) : list N :=
  match dec_pair cs with
  | None => [0; V_BADCASE]
  | Some pc =>
    if negb (tr_ok (pc_a pc) && tr_ok (pc_b pc)) then [0; V_BADCASE]
    else match proj_obs (pc_kind pc) (tr_cfg (pc_a pc)) 0 (tr_obs (pc_a pc)) with
         | [] => proj_obs (pc_kind pc) (tr_cfg (pc_b pc)) 1000 (tr_obs (pc_b pc))
         | v => v
         end
  end.
