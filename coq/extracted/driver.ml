(* Driver for the extracted correspondence checkers.
   stdin: one case per line:  <checker-name> n1 n2 n3 ...
   stdout: one line per case:  "ok"  or  "FAIL c1 c2 ..." (the verdict list of the checker).
   The only glue: decimal int -> BinNums.coq_N and back.  Extracted modules List/Bool shadow
   OCaml's, hence Stdlib.* below. *)
open BinNums

let rec pos_of_int (n : int) : positive =
  if n = 1 then Coq_xH
  else if n land 1 = 0 then Coq_xO (pos_of_int (n lsr 1))
  else Coq_xI (pos_of_int (n lsr 1))

let n_of_int (n : int) : coq_N = if n = 0 then N0 else Npos (pos_of_int n)

let rec int_of_pos (p : positive) : int =
  match p with
  | Coq_xH -> 1
  | Coq_xO q -> 2 * int_of_pos q
  | Coq_xI q -> 2 * int_of_pos q + 1

let int_of_n (n : coq_N) : int = match n with N0 -> 0 | Npos p -> int_of_pos p

let checkers : (string * (coq_N list -> coq_N list)) list = Checkers.table

let () =
  let buf = Buffer.create 65536 in
  (try
     while true do
       let line = input_line stdin in
       match String.index_opt line ' ' with
       | None -> if line <> "" then print_endline "FAIL 0 900"
       | Some i ->
         let name = String.sub line 0 i in
         let rest = String.sub line (i + 1) (String.length line - i - 1) in
         let toks = Stdlib.List.filter (fun s -> s <> "") (String.split_on_char ' ' rest) in
         let nums = Stdlib.List.map (fun s -> n_of_int (int_of_string s)) toks in
         (match Stdlib.List.assoc_opt name checkers with
          | None -> print_endline "FAIL 0 900"
          | Some f ->
            let v = f nums in
            Buffer.clear buf;
            if v = [] then Buffer.add_string buf "ok"
            else begin
              Buffer.add_string buf "FAIL";
              Stdlib.List.iter (fun x -> Buffer.add_char buf ' ';
                                 Buffer.add_string buf (string_of_int (int_of_n x))) v
            end;
            print_endline (Buffer.contents buf))
     done
   with End_of_file -> ())
