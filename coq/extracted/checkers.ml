(* name -> extracted checker; one entry per correspondence checker *)
let table : (string * (BinNums.coq_N list -> BinNums.coq_N list)) list = [
  ("alloc", AllocCorr.check_alloc);
  ("alloc_mon", AllocCorr.mon_alloc);
  ("framing", FramingCorr.check_framing);
  ("framing_mon", FramingCorr.mon_framing);
  ("conn", ConnCorr.check_conn);
  ("conn_proj", Proj.check_conn_proj);
  ("mon_c19", MonGate.mon_c19);
  ("mon_c11", MonGate.mon_c11);
  ("mon_c17", MonGate.mon_c17);
  ("mon_c15", MonTimers.mon_c15);
  ("mon_c08", MonIds.mon_c08);
  ("mon_c12", MonIds.mon_c12);
  ("mon_c06", MonSession.mon_c06);
  ("mon_c07", MonSession.mon_c07);
  ("mon_c13", MonSession.mon_c13);
  ("mon_c14", MonSession.mon_c14);
  ("mon_c05", MonSession.mon_c05);
  ("mon_pair", MonPair.mon_pair);
  ("chk_pair", MonPair.chk_pair);
  ("chk_c18", PropsCorr.chk_c18);
  ("mon_c18", PropsCorr.mon_c18);
  ("chk_pk", PkCorr.chk_pk);
  ("mon_c02", PkCorr.mon_c02);
  ("mon_c03", PkCorr.mon_c03);
  ("mon_c04", PkCorr.mon_c04);
  ("chk_c04", PkCorr.chk_c04);
  ("mon_c01", MonDuo.mon_c01);
  ("chk_duo", MonDuo.chk_duo);
  ("mon_c09", MonGate.mon_c09);
  ("mon_contract", MonContract.mon_contract);
]
