(* name -> extracted checker; one entry per correspondence checker *)
let table : (string * (BinNums.coq_N list -> BinNums.coq_N list)) list = [
  ("alloc", AllocCorr.check_alloc);
  ("alloc_mon", AllocCorr.mon_alloc);
  ("framing", FramingCorr.check_framing);
  ("framing_mon", FramingCorr.mon_framing);
  ("conn", ConnCorr.check_conn);
]
