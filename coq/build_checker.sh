#!/bin/sh
# Extract the checkers (Extract.v) into coq/extracted and build coq/extracted/checker.
set -e
cd "$(dirname "$0")/extracted"
find . -maxdepth 1 \( -name '*.ml' -o -name '*.mli' -o -name '*.cm*' -o -name '*.o' \) \
  ! -name driver.ml ! -name checkers.ml -delete
coqc -w -all -Q ../theories MQ ../theories/Extract.v >/dev/null
rm -f ../theories/Extract.vo ../theories/Extract.glob ../theories/.Extract.aux ../theories/Extract.vos ../theories/Extract.vok
ORDER=$(ocamlfind ocamldep -sort *.mli *.ml)
ocamlfind ocamlopt -w -a -O3 -unboxed-types 2>/dev/null -o checker $ORDER 2>/dev/null || ocamlfind ocamlopt -w -a -o checker $ORDER
echo "built $(pwd)/checker"
