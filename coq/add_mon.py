#!/usr/bin/env python3
"""usage: add_mon.py <ModuleFile under Mon/ without .v> <fn> [<fn>...]   registers monitor functions:
_CoqProject, Mon/All.v export, Extract.v, extracted/checkers.ml."""
import sys, re
mod = sys.argv[1]; fns = sys.argv[2:]
s = open('_CoqProject').read()
line = "theories/Mon/%s.v\n" % mod
if line not in s:
    s = s.replace("theories/Mon/All.v\n", line + "theories/Mon/All.v\n")
    open('_CoqProject', 'w').write(s)
s = open('theories/Mon/All.v').read()
if ("Mon.%s" % mod) not in s:
    s = s.rstrip().rstrip('.') + " Mon.%s.\n" % mod
    open('theories/Mon/All.v', 'w').write(s)
s = open('theories/Extract.v').read()
if ("Mon.%s" % mod) not in s:
    s = re.sub(r"(From MQ Require Import [^\n]*)\.\n", lambda m: m.group(1) + " Mon.%s.\n" % mod, s, count=1)
for f in fns:
    if re.search(r"\b%s\b" % f, s) is None:
        s = re.sub(r"(Separate Extraction [^\n]*)\.\n", lambda m: m.group(1) + " %s.\n" % f, s, count=1)
open('theories/Extract.v', 'w').write(s)
s = open('extracted/checkers.ml').read()
for f in fns:
    if ('"%s"' % f) not in s:
        s = s.replace("\n]", '\n  ("%s", %s.%s);\n]' % (f, mod, f))
open('extracted/checkers.ml', 'w').write(s)
print("registered", mod, fns)
