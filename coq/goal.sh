#!/bin/sh
# usage: goal.sh theories/X/Y.v LINE  — show the proof state just before LINE
f=$1; n=$2
tmp=/verif/run/_goal_$$.v
mkdir -p /verif/run
head -n $((n-1)) "$f" > $tmp
echo "Show. " >> $tmp
cd /verif/coq && coqc -Q theories MQ -w -all $tmp 2>&1 | grep -v '^Error: There are pending proofs\|^File.*_goal' | head -${3:-60}
rm -f /verif/run/_goal_$$.* /verif/run/._goal_$$.aux
