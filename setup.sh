#!/bin/sh
# Build the framework offline from files on disk: Coq development (full .vo), extracted checker, Rust harness.
set -e
cd "$(dirname "$0")"
export CARGO_NET_OFFLINE=true
mkdir -p run replays evidence
cd coq
coq_makefile -f _CoqProject -o Makefile
timeout 3000 make -j16
./build_checker.sh
cd ../harness
cp /repo/Cargo.lock Cargo.lock
timeout 1500 cargo build --offline
echo "setup ok"
