#!/bin/sh
# Build the framework offline from files on disk: Rust harness (against /repo, hooks on), the tables
# generated from the compiled crate, the Coq development (full .vo), the extracted checker.
set -e
cd "$(dirname "$0")"
export CARGO_NET_OFFLINE=true
mkdir -p run replays evidence coq/theories/Generated
cd harness
cp /repo/Cargo.lock Cargo.lock
timeout 1500 cargo build --offline
./target/debug/verif-harness tables --dir ../coq/theories/Generated
cd ../coq
coq_makefile -f _CoqProject -o Makefile
timeout 3000 make -j16
./build_checker.sh
echo "setup ok"
