"""Shared Spec for the connection-level properties: the tie is the per-property projection of the
connection correspondence (Mon.Proj.check_conn_proj <n>), the monitor is Mon.*.mon_cNN."""
import os
from . import common as C
from . import diffprop as D
from . import conndec


class ConnSpec(D.Spec):
    num = 0
    bias = 0
    coq_module = "Mon.All"
    quick_n = 2500
    thorough_n = 60000
    extra_rule = ""

    def __init__(self):
        self.prop = "C%02d" % self.num
        self.model_fn = ("conn_proj %d" % self.num, "check_conn_proj")
        self.monitor_fn = ("mon_c%02d" % self.num, "mon_c%02d" % self.num)
        # the monitors that only judge contract-abiding histories (tr_contract) are not shown a history in which the
        # generator itself handed an identifier in flight to a new send (Mon/MonContract.v)
        self.contract_fn = "mon_contract" if self.num in (6, 7, 8, 12, 13, 14, 15) else None
        self.corpus_file = os.path.join(C.CORPUS, "%s.cases" % self.prop)
        self.rule = ("seeded histories of 8-60 API calls on GenericConnection (roles Client/Server/Any, v3.1.1/v5.0/undetermined, "
                     "u16 and u32 ids, all option flags, optional session restore): contract-respecting local calls (ids from "
                     "acquire/register, timers fired only when armed, close reported after a close request; 10%% abuse cases) mixed with "
                     "peer traffic (valid packets of every kind with boundary values, mutated frames, garbage, split and merged "
                     "receive buffers); generator bias %d. After every call the events, return value and the full state digest "
                     "(hook) are recorded; the model is restarted from the implementation's state before each call and the "
                     "property's projection of events/state is compared; the monitor judges the implementation's own trace. "
                     "non-trivial = distinct case with >= 8 calls. %s" % (self.bias, self.extra_rule))
        self.assumptions = ["application contract of DESIGN.md §2.5 for the 90% contract cases",
                            "packets are seen through the view of Conn/Types.v; the parser's verdict on each received frame is an input (oracle) of the model",
                            "hand-written model; tie = sampled differential correspondence on the property's projection (full digest under C05)"]
        self.no_longer_checked = ("correspondence Mon.Proj.check_conn_proj %d (model Conn.Step.step vs GenericConnection on the projection "
                                  "of %s); theorems %s_* are about the model only" % (self.num, self.prop, self.prop))

    def gen(self, tier, seed, out_path, stats_path, search=False):
        n = self.quick_n if tier == "quick" else self.thorough_n
        if search:
            n *= 4
        C.harness(["conn", "--seed", seed, "--n", n, "--bias", self.bias, "--out", out_path, "--stats", stats_path])
        if self.bias != 0 and not search:
            # half of the budget with the general generator as well
            tmp = out_path + ".g"
            C.harness(["conn", "--seed", seed + 1, "--n", max(1, n // 2), "--bias", 0, "--out", tmp, "--stats", stats_path + ".g"])
            with open(out_path, "a") as f:
                f.write(open(tmp).read())
            os.remove(tmp)
            if os.path.exists(stats_path + ".g"):
                os.remove(stats_path + ".g")

    def replay_line(self, line):
        return conn_replay(line)

    def shrink_candidates(self, line, verdict):
        hdr, steps, nums = conndec.decode_case(line)
        k = verdict[0] if verdict else len(steps) - 1
        # 1. cut after the failing call
        if k + 1 < len(steps):
            yield conn_replay_ops(nums, steps, keep=list(range(k + 1)))
        # 2. drop one earlier call at a time
        upto = min(k + 1, len(steps))
        for i in range(upto - 1, -1, -1):
            keep = [j for j in range(upto) if j != i]
            if keep:
                yield conn_replay_ops(nums, steps, keep=keep)

    def describe(self, line, verdict, kind):
        k = verdict[0] if verdict else None
        s = "property: %s\nkind: %s\nverdict: %s   ([call index; code; detail]: 906 = monitor clause, see Mon/*.v judge_c%02d; 905/904/903 = events/state/return value differ from the model on this property's projection; 901/902 = panic on one side only)\n" % (self.prop, kind, verdict, self.num)
        try:
            s += conndec.describe(line, upto=k, with_digest_of=k)
        except Exception as e:
            s += "(could not decode the case: %s)\n" % e
        if getattr(self, "stage_tag", ""):
            s += "stage: %s\n" % self.stage_tag
        s += "case-line: %s\n" % line
        s += "replay: ./check %s --replay <this file>\n" % self.prop
        return s

    def nontrivial(self, line):
        return line.count(" ") > 400


def conn_replay_ops(nums, steps, keep):
    """re-run a subsequence of the recorded API calls on the implementation"""
    hdr = nums[:5]
    args = ["conn-replay"] + hdr
    for j in keep:
        a, b = steps[j]["span"]
        # the op encoding = tokens from span start up to (not including) the panicked flag; recompute by re-encoding
        args += ["|"] + steps[j]["op_tokens"]
    return C.harness(args).strip()


def conn_replay(line):
    hdr, steps, nums = conndec.decode_case(line)
    return conn_replay_ops(nums, steps, keep=list(range(len(steps))))
