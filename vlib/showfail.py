#!/usr/bin/env python3
"""usage: showfail.py <cases-file> <checker-name-with-args> [n]  — print the first n failing cases decoded"""
import sys, subprocess
sys.path.insert(0, '/verif')
from vlib import conndec
f, name = sys.argv[1], sys.argv[2]
n = int(sys.argv[3]) if len(sys.argv) > 3 else 1
lines = open(f).read().splitlines()
data = "\n".join(name + l[l.index(" "):] for l in lines) + "\n"
out = subprocess.run(["/verif/coq/extracted/checker"], input=data.encode(), stdout=subprocess.PIPE).stdout.decode().splitlines()
k = 0
for l, v in zip(lines, out):
    if v != "ok":
        idx = int(v.split()[1])
        print(v)
        print(conndec.describe(l, upto=idx, with_digest_of=idx)[-int(sys.argv[4]) if len(sys.argv) > 4 else -2500:])
        k += 1
        if k >= n:
            break
