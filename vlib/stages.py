"""Additional stages of a check: another monitor of the same development judged on connection histories
under this property's name (its evidence is merged into the property's evidence file)."""
import json
import os
from . import common as C
from . import diffprop as D
from . import connprop as K

KEYS = ("evaluations", "distinct_nontrivial", "rule", "correspondence_mismatches", "monitor_failures", "in_coq_crosscheck", "generator")


def conn_stage(prop, num, bias, quick_n, thorough_n, rule, tag):
    class Stage(K.ConnSpec):
        pass
    Stage.num = num
    Stage.bias = bias
    Stage.quick_n = quick_n
    Stage.thorough_n = thorough_n
    Stage.extra_rule = rule
    st = Stage()
    st.prop = prop
    st.known_prop = "C%02d" % num
    st.corpus_file = os.path.join(C.CORPUS, "%s%s.cases" % (prop, tag))
    st.stage_tag = tag
    return st


def run_with_stages(prop, main_spec, stages, tier, seed, t0):
    ev_path = os.path.join(C.VERIF, "evidence", "%s.json" % prop)
    rcs = []
    merged = {}
    viol = 0
    for st in stages:
        rcs.append(st.run_stage(tier, seed, t0) if hasattr(st, "run_stage") else D.run(st, tier, seed, t0))
        if os.path.exists(ev_path):
            ev = json.load(open(ev_path))
            cov = ev.get("coverage", {})
            merged[st.stage_tag] = {k: cov.get(k) for k in KEYS}
            viol += int(ev.get("violations") or 0)
    rcs.append(D.run(main_spec, tier, seed, t0))
    if os.path.exists(ev_path):
        ev = json.load(open(ev_path))
        for k, v in merged.items():
            ev["coverage"][k] = v
        ev["violations"] = int(ev.get("violations") or 0) + viol
        json.dump(ev, open(ev_path, "w"), indent=1)
    return 1 if any(rcs) else 0


def replay(path, main_spec, stages):
    txt = open(path).read()
    for st in stages:
        if "stage: %s" % st.stage_tag in txt:
            return st.replay_stage(path) if hasattr(st, "replay_stage") else D.do_replay(st, path)
    return D.do_replay(main_spec, path)


class AllocStage:
    """the allocator check (C20's machinery: model correspondence + set-specification monitor on ValueAllocator
    traces, ranges ending at the integer type's maximum included) as a stage of a property that relies on it"""
    stage_tag = "alloc"

    def __init__(self, prop):
        self.prop = prop

    def run_stage(self, tier, seed, t0):
        from .props import c20
        return c20.run_alloc(self.prop, self.stage_tag, tier, seed, t0)

    def replay_stage(self, path):
        from .props import c20
        return c20.replay(path, self.prop)
