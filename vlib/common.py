"""Shared machinery for /verif/check: builds, checker invocation, evidence, verdict lines."""
import json, os, re, subprocess, sys, time, glob, hashlib

VERIF = os.path.dirname(os.path.dirname(os.path.abspath(__file__)))
COQ = os.path.join(VERIF, "coq")
HARNESS = os.path.join(VERIF, "harness")
RUN = os.path.join(VERIF, "run")
REPLAYS = os.path.join(VERIF, "replays")
EVIDENCE = os.path.join(VERIF, "evidence")
CORPUS = os.path.join(VERIF, "corpus")
CHECKER = os.path.join(COQ, "extracted", "checker")
HARNESS_BIN = os.path.join(HARNESS, "target", "debug", "verif-harness")
CFG = "mqtt_protocol_core_verif"

ALLOWED_AXIOMS = set()  # stdlib axioms a theorem may depend on, by name (none needed so far)

FORBIDDEN = re.compile(
    r"\b(Admitted|admit|Axiom|Axioms|Parameter|Parameters|Conjecture|Conjectures|Admit Obligations|"
    r"Unset Guard Checking|Unset Positivity Checking|Unset Universe Checking|bypass_check|"
    r"type-in-type|impredicative-set)\b")


class CheckError(Exception):
    pass


def sh(cmd, cwd=None, timeout=3600, env=None, input=None):
    e = dict(os.environ)
    e["CARGO_NET_OFFLINE"] = "true"
    if env:
        e.update(env)
    p = subprocess.run(cmd, cwd=cwd, shell=isinstance(cmd, str), stdout=subprocess.PIPE,
                       stderr=subprocess.STDOUT, timeout=timeout, env=e, input=input)
    return p.returncode, p.stdout.decode("utf-8", "replace")


def ensure_dirs():
    for d in (RUN, REPLAYS, EVIDENCE):
        os.makedirs(d, exist_ok=True)


# ---------------------------------------------------------------- Coq
def coq_makefile():
    mk = os.path.join(COQ, "Makefile")
    cp = os.path.join(COQ, "_CoqProject")
    if not os.path.exists(mk) or os.path.getmtime(mk) < os.path.getmtime(cp):
        rc, out = sh("coq_makefile -f _CoqProject -o Makefile", cwd=COQ)
        if rc != 0:
            raise CheckError("coq_makefile failed:\n" + out)


def ensure_generated(force=False):
    """Generated/*.v are rewritten from the compiled crate (T-exh tables).  Only replaced when the
    content differs, so that an unchanged table does not trigger a rebuild."""
    gdir = os.path.join(COQ, "theories", "Generated")
    os.makedirs(gdir, exist_ok=True)
    targets = [os.path.join(gdir, f) for f in ("ObservedSendable.v", "ObservedProps.v", "ObservedCodes.v")]
    if all(os.path.exists(t) for t in targets) and not force:
        return
    if not os.path.exists(HARNESS_BIN):
        ok, out = build_harness()
        if not ok:
            raise CheckError("harness build failed against /repo:\n" + out[-3000:])
    tmp = os.path.join(RUN, "gen_tmp")
    os.makedirs(tmp, exist_ok=True)
    harness(["tables", "--dir", tmp])
    for f in os.listdir(tmp):
        new = open(os.path.join(tmp, f)).read()
        dst = os.path.join(gdir, f)
        if not os.path.exists(dst) or open(dst).read() != new:
            with open(dst, "w") as fh:
                fh.write(new)
        os.remove(os.path.join(tmp, f))


def coq_make(targets=None, timeout=2400):
    """Full .vo build (never -vos).  Returns (ok, output)."""
    ensure_generated()
    coq_makefile()
    t = " ".join(targets) if targets else ""
    rc, out = sh("timeout %d make -j16 %s" % (timeout, t), cwd=COQ, timeout=timeout + 60)
    return rc == 0, out


def hygiene():
    """No Admitted/admit/Axiom/Parameter/... anywhere in the development."""
    bad = []
    for f in glob.glob(os.path.join(COQ, "theories", "**", "*.v"), recursive=True):
        txt = open(f, encoding="utf-8").read()
        # strip comments (non-nested is enough for our sources; nested handled by loop)
        prev = None
        while prev != txt:
            prev = txt
            txt = re.sub(r"\(\*(?:(?!\(\*|\*\)).)*?\*\)", " ", txt, flags=re.S)
        for m in FORBIDDEN.finditer(txt):
            bad.append("%s: %s" % (os.path.relpath(f, VERIF), m.group(0)))
    return bad


def property_obligations(prop):
    """Re-compile Properties/<prop>.v to a scratch .vo and read the theorems and their
    Print Assumptions output.  Returns dict(theorems=[..], assumptions={thm: text}, ok, out)."""
    src = os.path.join(COQ, "theories", "Properties", prop + ".v")
    txt = open(src, encoding="utf-8").read()
    thms = re.findall(r"^(?:Theorem|Lemma|Corollary)\s+([A-Za-z0-9_']+)", txt, flags=re.M)
    examples = re.findall(r"^Example\s+([A-Za-z0-9_']+)", txt, flags=re.M)
    printed = re.findall(r"^Print Assumptions\s+([A-Za-z0-9_']+)\.", txt, flags=re.M)
    odir = os.path.join(RUN, "props_tmp_%s" % prop)
    os.makedirs(odir, exist_ok=True)
    out_vo = os.path.join(odir, prop + ".vo")
    rc, out = sh("timeout 900 coqc -Q theories MQ -w -all %s -o %s" % (src, out_vo), cwd=COQ, timeout=960)
    import shutil
    shutil.rmtree(odir, ignore_errors=True)
    # split the output into one block per Print Assumptions, in order
    blocks = []
    cur = None
    for line in out.splitlines():
        if line.startswith("Closed under the global context"):
            blocks.append("Closed under the global context")
            cur = None
        elif line.startswith("Axioms:"):
            cur = [line]
            blocks.append(cur)
        elif cur is not None and (line.startswith(" ") or line.strip() == "" or ":" in line):
            cur.append(line)
    blocks = ["\n".join(b) if isinstance(b, list) else b for b in blocks]
    assumptions = {}
    problems = []
    if rc != 0:
        problems.append("coqc failed on Properties/%s.v" % prop)
    if len(blocks) != len(printed):
        problems.append("Print Assumptions blocks %d != commands %d" % (len(blocks), len(printed)))
    for name, blk in zip(printed, blocks):
        assumptions[name] = blk
        if blk != "Closed under the global context":
            names = re.findall(r"^\s*([A-Za-z0-9_.']+)\s*:", blk, flags=re.M)
            extra = [n for n in names if n not in ALLOWED_AXIOMS and n != "Axioms"]
            if extra:
                problems.append("theorem %s depends on non-allow-listed axioms: %s" % (name, extra))
    missing = [t for t in thms if t not in printed]
    if missing:
        problems.append("theorems without Print Assumptions: %s" % missing)
    return dict(theorems=thms, examples=examples, assumptions=assumptions, ok=(not problems),
                problems=problems, out=out)


def coqchk(prop):
    """thorough tier: re-check Properties/<prop>.vo and everything it depends on with the independent
    checker and read its context summary (axioms, type-in-type, unsafe fixpoints, assumed positivity)"""
    rc, out = sh("timeout 3000 coqchk -silent -o -Q theories MQ MQ.Properties.%s" % prop, cwd=COQ, timeout=3100)
    summary = out[out.find("CONTEXT SUMMARY"):] if "CONTEXT SUMMARY" in out else out[-2000:]
    clean = (rc == 0 and "* Axioms: <none>" in summary and "type-in-type: <none>" in summary
             and "unsafe (co)fixpoints: <none>" in summary and "positivity is assumed: <none>" in summary)
    return clean, " ".join(summary.split())


# ---------------------------------------------------------------- checker + harness
def newest_mtime(paths):
    m = 0
    for p in paths:
        try:
            m = max(m, os.path.getmtime(p))
        except OSError:
            pass
    return m


def build_checker():
    srcs = glob.glob(os.path.join(COQ, "theories", "**", "*.v"), recursive=True)
    srcs = [s for s in srcs if "/Properties/" not in s and "/Generated/" not in s]
    srcs += [os.path.join(COQ, "extracted", "driver.ml"), os.path.join(COQ, "extracted", "checkers.ml")]
    if os.path.exists(CHECKER) and os.path.getmtime(CHECKER) >= newest_mtime(srcs):
        return
    rc, out = sh("timeout 1200 ./build_checker.sh", cwd=COQ, timeout=1300)
    if rc != 0:
        raise CheckError("build_checker failed:\n" + out[-4000:])


def build_harness():
    """Rebuild the harness against /repo's current working tree (hooks on, debug profile)."""
    lock = os.path.join(HARNESS, "Cargo.lock")
    if not os.path.exists(lock):
        rc, out = sh("cp /repo/Cargo.lock %s" % lock)
    rc, out = sh("timeout 1500 cargo build --offline 2>&1", cwd=HARNESS, timeout=1600)
    if rc != 0:
        return False, out
    return True, out


def harness(args, timeout=3000):
    rc, out = sh([HARNESS_BIN] + [str(a) for a in args], timeout=timeout)
    if rc != 0:
        raise CheckError("harness %s failed (rc=%d):\n%s" % (args, rc, out[-3000:]))
    return out


def run_checker(lines, rename=None, timeout=3000):
    """lines: list of 'name n1 n2 ...'.  Returns list of verdicts: None (ok) or [ints]."""
    if rename:
        data = "\n".join(rename + l[l.index(" "):] for l in lines) + "\n"
    else:
        data = "\n".join(lines) + "\n"
    # the extracted functions recurse on lists non-tail-recursively: long streams need a deep stack
    def _deep_stack():
        import resource
        try:
            resource.setrlimit(resource.RLIMIT_STACK, (resource.RLIM_INFINITY, resource.RLIM_INFINITY))
        except Exception:
            try:
                soft, hard = resource.getrlimit(resource.RLIMIT_STACK)
                resource.setrlimit(resource.RLIMIT_STACK, (hard, hard))
            except Exception:
                pass
    p = subprocess.run([CHECKER], input=data.encode(), stdout=subprocess.PIPE, stderr=subprocess.PIPE,
                       timeout=timeout, preexec_fn=_deep_stack)
    if p.returncode != 0:
        raise CheckError("checker crashed: " + p.stderr.decode()[-2000:])
    res = []
    for l in p.stdout.decode().splitlines():
        if l == "ok":
            res.append(None)
        else:
            res.append([int(x) for x in l.split()[1:]])
    if len(res) != len(lines):
        raise CheckError("checker returned %d verdicts for %d cases" % (len(res), len(lines)))
    return res


def coq_crosscheck(tag, module, fn, lines, verdicts, shards=8):
    """Evaluate the same Gallina checker inside Coq (vm_compute) on the given cases and require
    the verdict list to equal the extracted checker's.  Returns (ok, detail)."""
    if not lines:
        return True, "no cases"
    cdir = os.path.join(COQ, "cases")
    os.makedirs(cdir, exist_ok=True)
    procs = []
    per = max(1, (len(lines) + shards - 1) // shards)
    for k in range(0, len(lines), per):
        chunk = lines[k:k + per]
        vs = verdicts[k:k + per]
        name = "X_%s_%d" % (tag, k)
        path = os.path.join(cdir, name + ".v")
        with open(path, "w") as f:
            f.write("From MQ Require Import Base.Prelude %s.\n" % module)
            f.write("Definition cases : list (list N) := [\n")
            f.write(";\n".join("[" + ";".join(l.split()[1:]) + "]" for l in chunk))
            f.write("]%N.\n")
            f.write("Definition expected : list (list N) := [\n")
            f.write(";\n".join("[" + ";".join(str(x) for x in (v or [])) + "]" for v in vs))
            f.write("]%N.\n")
            f.write("Goal map %s cases = expected. Proof. vm_compute. reflexivity. Qed.\n" % fn)
        procs.append((name, subprocess.Popen(
            "timeout 600 coqc -Q theories MQ -w -all cases/%s.v" % name, cwd=COQ, shell=True,
            stdout=subprocess.PIPE, stderr=subprocess.STDOUT)))
    ok = True
    detail = []
    for name, p in procs:
        out, _ = p.communicate()
        if p.returncode != 0:
            ok = False
            detail.append("%s: %s" % (name, out.decode()[-600:]))
    for f in glob.glob(os.path.join(cdir, "X_%s_*" % tag)) + glob.glob(os.path.join(cdir, ".X_%s_*" % tag)):
        try:
            os.remove(f)
        except OSError:
            pass
    return ok, "; ".join(detail) if detail else "%d cases agree" % len(lines)


# ---------------------------------------------------------------- findings / verdicts / evidence
def load_known():
    p = os.path.join(VERIF, "known_findings.json")
    if not os.path.exists(p):
        return dict(findings=[], fixed=[])
    return json.load(open(p))


def violation(prop, replay_path, no_input=False):
    rel = os.path.relpath(replay_path, VERIF)
    print("VIOLATION property=%s replay=%s%s" % (prop, rel, " no-failing-input-found" if no_input else ""))
    sys.stdout.flush()


def write_replay(prop, name, body):
    ensure_dirs()
    path = os.path.join(REPLAYS, "%s-%s.replay" % (prop, name))
    with open(path, "w") as f:
        f.write(body)
    return path


def write_evidence(prop, tier, seed, coverage, assumptions, wall, violations):
    ensure_dirs()
    ev = dict(property_id=prop, tier=tier, seed=seed, level="proof", coverage=coverage,
              assumptions=assumptions, wall_s=round(wall, 2), violations=violations)
    with open(os.path.join(EVIDENCE, prop + ".json"), "w") as f:
        json.dump(ev, f, indent=1)


TRUSTED_BASE = [
    "Coq 8.16.1 kernel incl. vm_compute (no native_compute); coqchk re-check in thorough tier",
    "axioms: none declared; Print Assumptions of every property theorem must be 'Closed under the global context' (checked every run)",
    "hand-written Gallina model tied to /repo by correspondence only: Rust harness (generator, driver, number printer), cfg-guarded hooks, rustc/cargo",
    "extraction for volume (ExtrOcamlBasic only: bool/option/unit/list/prod/sumbool/sumor mapped, andb/orb inlined; N/positive/nat stay inductives), OCaml 4.13.1, driver.ml; cross-checked every run against in-Coq vm_compute on sample cases",
    "python orchestrator /verif/check",
]
