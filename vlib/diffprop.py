"""Generic runner for a property decided by: Coq theorems (Properties/<P>.v) + differential
correspondence (model checker) + property monitor on implementation traces, with shrinking,
targeted search and the VIOLATION / evidence protocol.  Property modules supply a Spec."""
import json, os, time
from . import common as C


class Spec:
    prop = ""
    coq_module = ""            # e.g. "Corr.AllocCorr"
    model_fn = ("", "")        # (checker line name, Gallina function)  model-vs-impl correspondence
    monitor_fn = ("", "")      # (checker line name, Gallina function)  property monitor on impl trace
    corpus_file = None
    rule = ""
    assumptions = []
    no_longer_checked = ""
    contract_fn = None      # checker entry that returns the first call breaking the APPLICATION's side of the contract

    def coq_targets(self):
        """make targets this property needs: its theorems, the monitors and checkers (never another property's obligations)"""
        return ["theories/Properties/%s.vo" % self.prop, "theories/Mon/All.vo", "theories/Corr/AllocCorr.vo",
                "theories/Corr/FramingCorr.vo"]

    def obligation_failure(self, out):
        """called when the Coq build of this property's targets fails; returns a replay body or None"""
        return None

    def gen(self, tier, seed, out_path, stats_path, search=False):
        raise NotImplementedError

    def replay_line(self, line):
        """re-run the inputs of a case line on the implementation; returns the new case line"""
        raise NotImplementedError

    def shrink_candidates(self, line, verdict):
        """yield smaller input descriptions (as case lines re-run on the implementation)"""
        return []

    def describe(self, line, verdict, kind):
        return "property: %s\nkind: %s\nverdict: %s\ncase-line: %s\n" % (self.prop, kind, verdict, line)

    def nontrivial(self, line):
        return True


def renamed(line, which):
    return which + line[line.index(" "):]


def judge(spec, line, which):
    return C.run_checker([renamed(line, which)])[0]


def shrink(spec, line, which):
    v = judge(spec, line, which)
    if v is None:
        return line, v
    changed = True
    rounds = 0
    while changed and rounds < 200:
        changed = False
        rounds += 1
        for cand in spec.shrink_candidates(line, v):
            v2 = judge(spec, cand, which)
            if v2 is not None:
                if spec.contract_fn and which == spec.monitor_fn[0]:
                    b = judge(spec, cand, spec.contract_fn)
                    if b is not None and b[0] <= v2[0]:
                        continue        # dropping a call made the remaining ones reuse an identifier in flight
                line, v = cand, v2
                changed = True
                break
    return line, v


def do_replay(spec, path):
    line = None
    for l in open(path):
        if l.startswith("case-line: "):
            line = l[len("case-line: "):].strip()
    if not line:
        print("no case-line in replay file (an obligation/no-input replay names the theorem instead)")
        return 2
    C.coq_make(targets=spec.coq_targets())
    C.build_checker()
    ok, out = C.build_harness()
    if not ok:
        print(out[-3000:])
        return 2
    now = spec.replay_line(line)
    vm = judge(spec, now, spec.monitor_fn[0])
    vc = judge(spec, now, spec.model_fn[0])
    print("implementation now: %s" % now[:2000])
    print("monitor (property on the implementation's trace): %s" % ("ok" if vm is None else vm))
    print("model correspondence: %s" % ("ok" if vc is None else vc))
    return 1 if (vm is not None or vc is not None) else 0


def run(spec, tier, seed, t0):
    P = spec.prop
    bad = C.hygiene()
    if bad:
        raise C.CheckError("forbidden tokens in the development: %s" % bad)
    ok, out = C.coq_make(targets=spec.coq_targets())
    if not ok:
        body = spec.obligation_failure(out)
        if body is None:
            raise C.CheckError("Coq build failed:\n" + out[-3000:])
        kind, text, has_input = body
        p = C.write_replay(P, "obligation-%d" % seed, text)
        C.violation(P, p, no_input=not has_input)
        C.write_evidence(P, tier, seed, dict(obligations=1, discharged=0, checker_cmd="make " + " ".join(spec.coq_targets()),
                                             trusted_base=C.TRUSTED_BASE, explanation=kind, evaluations=1, distinct_nontrivial=1),
                         spec.assumptions, time.time() - t0, 1)
        return 1
    ob = C.property_obligations(P)
    chk = None
    if tier == "thorough":
        clean, summary = C.coqchk(P)
        chk = summary
        if not clean:
            ob["ok"] = False
            ob["problems"].append("coqchk does not report a clean context: %s" % summary[:600])
    C.build_checker()
    ok, out = C.build_harness()
    if not ok:
        raise C.CheckError("harness build failed against /repo:\n" + out[-3000:])

    cases_path = os.path.join(C.RUN, "%s.cases" % P)
    stats_path = os.path.join(C.RUN, "%s.stats" % P)
    spec.gen(tier, seed, cases_path, stats_path)
    gen = [l.rstrip("\n") for l in open(cases_path) if l.strip()]
    corpus = []
    if spec.corpus_file and os.path.exists(spec.corpus_file):
        for l in open(spec.corpus_file):
            l = l.strip()
            if l and not l.startswith("#"):
                corpus.append(spec.replay_line(l))
    lines = corpus + gen
    stats = json.load(open(stats_path)) if os.path.exists(stats_path) else {}

    ml = [renamed(l, spec.model_fn[0]) for l in lines]
    mm = [renamed(l, spec.monitor_fn[0]) for l in lines]
    v_model = C.run_checker(ml)
    v_mon = C.run_checker(mm)
    # in-Coq evaluation of the corpus and the first cases; short ones only (Coq parses literals slowly)
    pick = [i for i in range(len(lines)) if len(lines[i]) < 6000][:len(corpus) + 64]
    x1, d1 = C.coq_crosscheck(P + "a", spec.coq_module, spec.model_fn[1], [ml[i] for i in pick], [v_model[i] for i in pick])
    x2, d2 = C.coq_crosscheck(P + "m", spec.coq_module, spec.monitor_fn[1], [mm[i] for i in pick], [v_mon[i] for i in pick])
    if not (x1 and x2):
        raise C.CheckError("in-Coq evaluation disagrees with the extracted checker: %s %s" % (d1, d2))

    # monitor verdicts whose clause code is a recorded known finding of this property (read-only list)
    TG = (getattr(spec, "stage_tag", "") + "-") if getattr(spec, "stage_tag", "") else ""
    KP = getattr(spec, "known_prop", None) or P     # a stage that reuses another property's monitor uses that property's list
    known = {f["code"]: f for f in C.load_known().get("findings", []) if f.get("property") == KP and "code" in f}
    known_hits = {}
    for i, v in enumerate(v_mon):
        if v is not None and len(v) >= 3 and v[1] == 906 and v[2] in known:
            known_hits.setdefault(v[2], []).append(i)
            v_mon[i] = None
    for code, idxs in known_hits.items():
        if KP != P:
            continue        # reported by the check of the property the finding belongs to
        print("KNOWN-FINDING: property=%s %s (seen in %d of %d cases this run)" % (P, known[code]["what"], len(idxs), len(lines)))
    # a contract-abiding stream in which the GENERATOR broke the application's side of the contract before the
    # call the monitor objects to (Mon/MonContract.v = own_op_ok of the ownership theorems) is not judged
    breaches = 0
    if spec.contract_fn:
        cand = [i for i, v in enumerate(v_mon) if v is not None]
        if cand:
            v_con = C.run_checker([renamed(lines[i], spec.contract_fn) for i in cand])
            for i, b in zip(cand, v_con):
                if b is not None and b[0] <= v_mon[i][0]:
                    v_mon[i] = None
                    breaches += 1
            if breaches:
                print("NOTE: %d generated histories broke the application contract themselves (not judged)" % breaches)
    mon_fail = [i for i, v in enumerate(v_mon) if v is not None]
    cor_fail = [i for i, v in enumerate(v_model) if v is not None]
    violations = 0
    rc = 0
    if not ob["ok"]:
        p = C.write_replay(P, TG + "obligation", "property: %s\nkind: obligation\nfailing: %s\n%s\n" % (P, ob["problems"], ob["out"][-3000:]))
        C.violation(P, p, no_input=True)
        violations += 1
        rc = 1
    if mon_fail:
        small, v = shrink(spec, lines[mon_fail[0]], spec.monitor_fn[0])
        p = C.write_replay(P, TG + "monitor-%d" % seed, spec.describe(small, v, "monitor (the implementation's trace violates the property)"))
        C.violation(P, p)
        violations += len(mon_fail)
        rc = 1
    elif cor_fail:
        extra_path = os.path.join(C.RUN, "%s.search.cases" % P)
        spec.gen(tier, seed + 7919, extra_path, stats_path + ".search", search=True)
        extra = [l.rstrip("\n") for l in open(extra_path) if l.strip()]
        v2 = C.run_checker([renamed(l, spec.monitor_fn[0]) for l in extra])
        hit = [j for j, v in enumerate(v2) if v is not None]
        if spec.contract_fn and hit:
            vb = C.run_checker([renamed(extra[j], spec.contract_fn) for j in hit])
            hit = [j for j, b in zip(hit, vb) if not (b is not None and b[0] <= v2[j][0])]
        if hit:
            small, v = shrink(spec, extra[hit[0]], spec.monitor_fn[0])
            p = C.write_replay(P, TG + "monitor-%d" % seed, spec.describe(small, v, "monitor (found by targeted search after a correspondence mismatch)"))
            C.violation(P, p)
        else:
            small, v = shrink(spec, lines[cor_fail[0]], spec.model_fn[0])
            body = spec.describe(small, v, "correspondence")
            body += "no-longer-checked: %s\n" % spec.no_longer_checked
            p = C.write_replay(P, TG + "correspondence-%d" % seed, body)
            C.violation(P, p, no_input=True)
        for f in (extra_path, stats_path + ".search"):
            if os.path.exists(f):
                os.remove(f)
        violations += len(cor_fail)
        rc = 1

    nthm = len(ob["theorems"])
    nontrivial = len(set(l for l in lines if spec.nontrivial(l)))
    samples = [lines[len(corpus)][:1500] if len(lines) > len(corpus) else lines[0][:1500], lines[-1][:1500]]
    coverage = dict(
        obligations=nthm, discharged=nthm if ob["ok"] else 0,
        checker_cmd="cd /verif/coq && make -j16 theories/Properties/%s.vo  (coqc 8.16.1 full .vo build; Print Assumptions re-read every run)" % P,
        trusted_base=C.TRUSTED_BASE,
        theorems=ob["theorems"], examples=ob["examples"], print_assumptions=ob["assumptions"], coqchk=chk,
        evaluations=len(lines), distinct_nontrivial=nontrivial, rule=spec.rule,
        traces_validated_against_impl=len(lines), correspondence_mismatches=len(cor_fail), monitor_failures=len(mon_fail),
        in_coq_crosscheck="%s; %s" % (d1, d2), generator=stats, corpus_cases=len(corpus),
        known_finding_hits={str(k): len(v) for k, v in known_hits.items()},
        generator_contract_breaches=breaches,
        samples=samples, exhaustive=False)
    C.write_evidence(P, tier, seed, coverage, spec.assumptions, time.time() - t0, violations)
    for f in (cases_path, stats_path):
        if os.path.exists(f):
            os.remove(f)
    return rc
