#!/usr/bin/env python3
"""usage: showduo.py <cases-file> [n] [checker]  — print the first n failing duo cases, interleaved"""
import sys, subprocess
sys.path.insert(0, '/verif')
from vlib import conndec


def split_duo(line):
    t = line.split()[2:]
    lc = int(t[0]); c = t[1:1 + lc]
    r = t[1 + lc:]
    ls = int(r[0]); s = r[1:1 + ls]
    r = r[1 + ls:]
    k = int(r[0]); sched = [int(x) for x in r[1:1 + k]]
    tail = r[1 + k:]
    return c, s, sched, tail


def describe(line, upto=None):
    c, s, sched, tail = split_duo(line)
    out = "drained losses content_bad = %s\n" % " ".join(tail)
    dc = conndec.describe("conn " + " ".join(c)).splitlines()
    ds = conndec.describe("conn " + " ".join(s)).splitlines()

    def blocks(lines):
        bl = []; cur = None
        for l in lines:
            if l[:4].strip().isdigit() and l[4:6] == " (" or (len(l) > 3 and l.lstrip()[:1].isdigit() and l.startswith(" ") and "(" in l[:8]):
                cur = [l]; bl.append(cur)
            elif cur is not None:
                cur.append(l)
        return bl
    bc, bs = blocks(dc), blocks(ds)
    ic = isv = 0
    for side in sched:
        if side == 0 and ic < len(bc):
            out += "C " + "\nC ".join(bc[ic]) + "\n"; ic += 1
        elif side == 1 and isv < len(bs):
            out += "  S " + "\n  S ".join(bs[isv]) + "\n"; isv += 1
    return out


if __name__ == "__main__":
    f = sys.argv[1]
    n = int(sys.argv[2]) if len(sys.argv) > 2 else 1
    name = sys.argv[3] if len(sys.argv) > 3 else "mon_c01"
    pat = sys.argv[4] if len(sys.argv) > 4 else ""
    lines = open(f).read().splitlines()
    data = "\n".join(name + l[l.index(" "):] for l in lines) + "\n"
    out = subprocess.run(["/verif/coq/extracted/checker"], input=data.encode(), stdout=subprocess.PIPE).stdout.decode().splitlines()
    k = 0
    for l, v in zip(lines, out):
        if v != "ok" and pat in v:
            print(v)
            print(describe(l)[-int(sys.argv[5]) if len(sys.argv) > 5 else -6000:])
            k += 1
            if k >= n:
                break
