#!/usr/bin/env python3
"""usage: showpair.py <cases-file> [n]  — print the first n failing paired cases (mon_pair) decoded"""
import sys, subprocess
sys.path.insert(0, '/verif')
from vlib import conndec
f = sys.argv[1]
n = int(sys.argv[2]) if len(sys.argv) > 2 else 1
name = sys.argv[3] if len(sys.argv) > 3 else "mon_pair"
lines = open(f).read().splitlines()
data = "\n".join(name + l[l.index(" "):] for l in lines) + "\n"
out = subprocess.run(["/verif/coq/extracted/checker"], input=data.encode(), stdout=subprocess.PIPE).stdout.decode().splitlines()
k = 0
for l, v in zip(lines, out):
    if v != "ok":
        t = l.split()
        kind, ka, kb, lenA = map(int, t[1:5])
        nums = t[5:]
        A = "conn " + " ".join(nums[:lenA]); B = "conn " + " ".join(nums[lenA:])
        idx = int(v.split()[1])
        print(v, "kind", kind, "ka", ka, "kb", kb)
        print(conndec.describe(A, upto=idx, with_digest_of=idx)[-5000:])
        print("===== second object")
        j = idx - ka + kb if idx < 1000 else idx - 1000
        print(conndec.describe(B, upto=j, with_digest_of=j)[-3000:])
        k += 1
        if k >= n:
            break
