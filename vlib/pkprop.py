"""Codec Spec (C02, C03): abstract packets -> builders -> bytes/size/buffers/re-parse/accessors
vs the reference codec Packet/Packets.v (Corr.PkCorr)."""
import os
from . import common as C
from . import diffprop as D

KINDS = {1: "CONNECT", 2: "CONNACK", 3: "PUBLISH", 4: "PUBACK", 5: "PUBREC", 6: "PUBREL", 7: "PUBCOMP", 8: "SUBSCRIBE",
         9: "SUBACK", 10: "UNSUBSCRIBE", 11: "UNSUBACK", 12: "PINGREQ", 13: "PINGRESP", 14: "DISCONNECT", 15: "AUTH"}


class PkSpec(D.Spec):
    coq_module = "Mon.All"
    model_fn = ("chk_pk", "chk_pk")
    quick_n = 12000
    thorough_n = 400000
    rule = ("seeded abstract packets of all 29 kinds (15 v5.0, 14 v3.1.1; one fifth with 32-bit packet identifiers): optional fields "
            "present/absent, 0-4 properties from the location's legal set, strings (1-4 byte UTF-8 sequences incl. U+FFFF, U+10FFFF), "
            "binaries and payloads with lengths from {0..7, 10,11,15,22,23,31,46,47 (SSO thresholds), 127,128} and, rarely, {255,256,16383,"
            "16384,65535}; boundary identifiers and keep-alive values; one in eight packets is spoiled (identifier 0, misplaced/duplicate/"
            "invalid property, wildcard or empty topic, QoS/identifier mismatch, password without user name, empty entry lists, bad codes). "
            "Each is built through the public builders; recorded: accept/refuse, to_continuous_buffer(), size(), concatenated to_buffers(), "
            "re-parse of the bytes (equal packet, consumed count), and the accessor values. Compared with the reference codec: the builders "
            "accept exactly packet_ok, the bytes are exactly `encode`. non-trivial = distinct case of >= 12 tokens.")
    assumptions = ["the reference codec (Packet/*.v) was written by hand from the OASIS MQTT v3.1.1 / v5.0 documents; it shares nothing with the library",
                   "default feature set of the crate (SSO variants are build features; the reference has no SSO, lengths around the thresholds are generated)",
                   "AUTH has no reason-code-only form (3.15: Reason Code and Property Length are omitted together); the library normalises to an empty property list"]

    def gen(self, tier, seed, out_path, stats_path, search=False):
        n = self.quick_n if tier == "quick" else self.thorough_n
        if search:
            n *= 2
        C.harness(["pk", "--seed", seed, "--n", n, "--out", out_path, "--stats", stats_path])

    def replay_line(self, line):
        return C.harness(["pk-replay"] + line.split()[1:]).strip()

    def shrink_candidates(self, line, verdict):
        return []

    def describe(self, line, verdict, kind):
        t = line.split()
        try:
            head = "version %s, %s-byte packet identifiers, %s" % ("5.0" if t[1] == "5" else "3.1.1", t[2], KINDS.get(int(t[3]), t[3]))
        except Exception:
            head = "?"
        return ("property: %s\nkind: %s\nverdict: %s  (910 d: the builder's verdict differs from packet_ok (d = what packet_ok says); 911: bytes differ from the "
                "reference encoding; 906 c: monitor clause c, see Corr/PkCorr.v mon_c02 / mon_c03)\npacket: %s\n"
                "tokens (abstract packet as in Corr/PkCorr.v tk_case, then 1 n bytes.. size bufcat_ok reparse_eq consumed_ok accessors_eq | 0 = refused): \n"
                "case-line: %s\nreplay: ./check %s --replay <this file>\n" % (self.prop, kind, verdict, head, line, self.prop))

    def nontrivial(self, line):
        return line.count(" ") >= 12
