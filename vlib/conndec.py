"""Decoder of the numeric connection-case format (mirror of harness/src/conn_body.rs), for replay
files and debugging."""
TYPES = {1: "CONNECT", 2: "CONNACK", 3: "PUBLISH", 4: "PUBACK", 5: "PUBREC", 6: "PUBREL", 7: "PUBCOMP", 8: "SUBSCRIBE",
         9: "SUBACK", 10: "UNSUBSCRIBE", 11: "UNSUBACK", 12: "PINGREQ", 13: "PINGRESP", 14: "DISCONNECT", 15: "AUTH"}
OPS = {0: "send", 1: "recv", 2: "timer", 3: "notify_closed", 4: "set_pingreq_send_interval", 5: "set_pingresp_recv_timeout",
       6: "set_offline_publish", 7: "set_auto_pub_response", 8: "set_auto_ping_response", 9: "set_auto_map_topic_alias_send",
       10: "set_auto_replace_topic_alias_send", 11: "acquire_packet_id", 12: "register_packet_id", 13: "release_packet_id",
       14: "erase_stored_publish", 15: "restore_packets", 16: "restore_qos2_publish_handled", 17: "regulate_for_store",
       18: "checked_send"}
TIMERS = ["PingreqSend", "PingreqRecv", "PingrespRecv"]


class Rd:
    def __init__(self, nums, i=0):
        self.n = nums
        self.i = i

    def get(self):
        x = self.n[self.i]
        self.i += 1
        return x

    def take(self, k):
        x = self.n[self.i:self.i + k]
        self.i += k
        return x

    def opt(self):
        p, v = self.get(), self.get()
        return v if p else None

    def done(self):
        return self.i >= len(self.n)


def pkt(r):
    ty, ver, pid, qos, dup, retain = r.take(6)
    topic = bytes(r.take(r.get()))
    alias = r.opt()
    plen, paylen, size, rcp, rc, flag, ka = r.take(7)
    tam, rm, mps, sei, ska = r.opt(), r.opt(), r.opt(), r.opt(), r.opt()
    d = dict(type=TYPES.get(ty, ty), v=ver, size=size)
    if pid: d["pid"] = pid
    if ty == 3:
        d.update(qos=qos, dup=dup, topic=topic.decode("latin1"), paylen=paylen, plen=plen)
        if alias is not None: d["alias"] = alias
    if rcp: d["rc"] = rc
    if ty in (1, 2): d.update(flag=flag, keep_alive=ka, tam=tam, rm=rm, mps=mps, sei=sei, ska=ska)
    return d


def events(r):
    out = []
    for _ in range(r.get()):
        t = r.get()
        if t == 0:
            p = pkt(r); rel = r.opt(); out.append(("Send", p, rel))
        elif t == 1: out.append(("Notify", pkt(r)))
        elif t == 2: out.append(("Released", r.get()))
        elif t == 3: out.append(("TimerReset", TIMERS[r.get()], r.get()))
        elif t == 4: out.append(("TimerCancel", TIMERS[r.get()]))
        elif t == 5: out.append(("Error", r.get()))
        else: out.append(("Close",))
    return out


def setr(r):
    return r.take(r.get())


def digest(r):
    d = {}
    d["version"] = r.get()
    d["pid_free"] = [tuple(r.take(2)) for _ in range(r.get())]
    for k in ("suback", "unsuback", "puback", "pubrec", "pubcomp"):
        d[k] = setr(r)
    d["need_store"] = r.get()
    d["store"] = [pkt(r) for _ in range(r.get())]
    d["flags(offline,auto_pub,auto_ping,auto_map,auto_replace)"] = r.take(5)
    if r.get():
        mx = r.get(); d["ta_recv"] = (mx, [(r.get(), bytes(setr(r)).decode("latin1")) for _ in range(r.get())])
    if r.get():
        mx = r.get()
        a2t = [(r.get(), bytes(setr(r)).decode("latin1")) for _ in range(r.get())]
        t2a = [(bytes(setr(r)).decode("latin1"), setr(r)) for _ in range(r.get())]
        free = [tuple(r.take(2)) for _ in range(r.get())]
        d["ta_send"] = (mx, a2t, t2a, free)
    d["send_max"] = r.opt(); d["recv_max"] = r.opt(); d["send_count"] = r.get()
    d["publish_recv"] = setr(r)
    d["mps_send"], d["mps_recv"], d["status"] = r.take(3)
    d["user_ping"] = r.opt(); d["keep_alive_ms"] = r.get(); d["server_ka_ms"] = r.opt()
    d["pingreq_recv_to"], d["pingresp_recv_to"] = r.take(2)
    d["qos2"] = setr(r)
    d["timers(send,recv,resp)"] = r.take(3)
    d["pb"] = (r.get(), setr(r), r.get(), len(setr(r)))
    d["is_client"] = r.get()
    d["vacancy"] = r.opt()
    return d


def op(r):
    t = r.get()
    name = OPS.get(t, t)
    if t in (0, 17, 18):
        p = pkt(r); r.take(r.get())
        return (t, name, p)
    if t == 1:
        b = bytes(r.take(r.get()))
        pt = r.get()
        pr = ("ok", pkt(r)) if pt == 0 else (("err", r.get()) if pt == 1 else ("none",))
        return (t, name, b.hex(), pr)
    if t == 2: return (t, name, TIMERS[r.get()])
    if t in (3, 11): return (t, name)
    if t == 4: return (t, name, r.opt())
    if t in (5, 12, 13, 14): return (t, name, r.get())
    if 6 <= t <= 10: return (t, name, bool(r.get()))
    if t == 15:
        l = []
        for _ in range(r.get()):
            l.append(pkt(r)); r.take(r.get())
        return (t, name, l)
    if t == 16: return (t, name, setr(r))
    raise ValueError("bad op tag %s at %d" % (t, r.i))


def decode_case(line):
    nums = [int(x) for x in line.split()[1:]]
    r = Rd(nums)
    hdr = dict(contract=r.get(), role=["Client", "Server", "Any"][r.get()], idmax=r.get(), idw=r.get(), version=r.get())
    steps = []
    while not r.done():
        start = r.i
        o = op(r)
        toks = nums[start:r.i]
        pan = r.get()
        if pan:
            steps.append(dict(op=o, panicked=True, span=(start, r.i), op_tokens=toks))
            break
        ev = events(r)
        ret = setr(r)
        dg = digest(r)
        steps.append(dict(op=o, panicked=False, events=ev, ret=ret, digest=dg, span=(start, r.i), op_tokens=toks))
    return hdr, steps, nums


def describe(line, upto=None, with_digest_of=None):
    hdr, steps, _ = decode_case(line)
    s = "config: %s\n" % hdr
    for i, st in enumerate(steps):
        if upto is not None and i > upto: break
        s += "%3d %s\n" % (i, st["op"][1:])
        if st["panicked"]:
            s += "      -> PANIC\n"
        else:
            for e in st["events"]:
                s += "      -> %s\n" % (e,)
            if st["ret"]: s += "      ret %s\n" % st["ret"]
            if with_digest_of == i: s += "      state %s\n" % st["digest"]
    return s
