"""Paired-run Spec (C10: reused object vs fresh object; C16: original vs restored object).
Case line: pair <kind> <kA> <kB> <lenA> <trace A> <trace B>; the monitor Mon.MonPair.mon_pair
compares the two implementation traces, the correspondence chk_pair checks both against the model."""
import os
from . import common as C
from . import diffprop as D
from . import conndec
from .connprop import ConnSpec


def split_pair(line):
    t = line.split()
    kind, ka, kb, lena = (int(x) for x in t[1:5])
    nums = t[5:]
    return kind, ka, kb, nums[:lena], nums[lena:]


class PairSpec(ConnSpec):
    kind = 10
    quick_n = 2500
    thorough_n = 40000

    def __init__(self):
        ConnSpec.__init__(self)
        self.model_fn = ("chk_pair", "chk_pair")
        self.monitor_fn = ("mon_pair", "mon_pair")
        self.no_longer_checked = ("correspondence Mon.MonPair.chk_pair (model Conn.Step.step vs GenericConnection on both objects of "
                                  "the pair, full digest); theorems %s_* are about the model only" % self.prop)

    def gen(self, tier, seed, out_path, stats_path, search=False):
        n = self.quick_n if tier == "quick" else self.thorough_n
        if search:
            n *= 3
        half = max(1, n // 2)
        C.harness(["conn-pair", "--kind", self.kind, "--seed", seed, "--n", half, "--bias", self.bias, "--out", out_path, "--stats", stats_path])
        tmp = out_path + ".g"
        C.harness(["conn-pair", "--kind", self.kind, "--seed", seed + 1, "--n", n - half, "--bias", 0, "--out", tmp, "--stats", stats_path + ".g"])
        with open(out_path, "a") as f:
            f.write(open(tmp).read())
        os.remove(tmp)
        if os.path.exists(stats_path + ".g"):
            os.remove(stats_path + ".g")

    def _replay(self, kind, ka, nums_a, steps, keep):
        args = ["conn-pair-replay", kind, ka] + nums_a[:5]
        for j in keep:
            args += ["|"] + steps[j]["op_tokens"]
        return C.harness(args).strip()

    def replay_line(self, line):
        kind, ka, kb, a, b = split_pair(line)
        hdr, steps, nums = conndec.decode_case("conn " + " ".join(a))
        return self._replay(kind, ka, nums, steps, list(range(len(steps))))

    def shrink_candidates(self, line, verdict):
        kind, ka, kb, a, b = split_pair(line)
        hdr, steps, nums = conndec.decode_case("conn " + " ".join(a))
        k = verdict[0] if verdict else len(steps) - 1
        if k >= 1000:          # a correspondence verdict on the second object: index there
            k = len(steps) - 1
        if k + 1 < len(steps):
            yield self._replay(kind, ka, nums, steps, list(range(k + 1)))
        upto = min(k + 1, len(steps))
        for i in range(upto - 1, -1, -1):
            keep = [j for j in range(upto) if j != i]
            if keep:
                yield self._replay(kind, ka - 1 if i < ka else ka, nums, steps, keep)

    def describe(self, line, verdict, kind_s):
        kind, ka, kb, a, b = split_pair(line)
        k = verdict[0] if verdict else None
        s = ("property: %s\nkind: %s\nverdict: %s   ([call index in the first object (>=1000: index-1000 in the second); 906 = the two implementation "
             "objects differ: clause 2 panic on one side, 3 events, 4 return value, 5 state digest (+ field group), 6 length; "
             "905/904/903/901/902 = difference from the model])\n"
             "first object: history up to call %d, then the common script; second object: %s, then the same script from its call %d\n"
             % (self.prop, kind_s, verdict, ka, "options only (fresh)" if kind == 10 else "options + restore of the first object's export", kb))
        try:
            ia = k if (k is not None and k < 1000) else None
            s += "--- first object\n" + conndec.describe("conn " + " ".join(a), upto=ia, with_digest_of=ia)
            ib = (k - ka + kb) if (k is not None and k < 1000) else (k - 1000 if k is not None else None)
            s += "--- second object\n" + conndec.describe("conn " + " ".join(b), upto=ib, with_digest_of=ib)
        except Exception as e:
            s += "(could not decode the case: %s)\n" % e
        s += "case-line: %s\n" % line
        s += "replay: ./check %s --replay <this file>\n" % self.prop
        return s

    def nontrivial(self, line):
        return line.count(" ") > 600
