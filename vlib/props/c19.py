"""C19 — close requests are ordered after the last packet to flush."""
from .. import connprop as K
from .. import diffprop as D


class S(K.ConnSpec):
    num = 19
    bias = 15
    extra_rule = "Every event list of every call is judged by close_ordered (the predicate the theorem is about); keep-alive expiries on established connections must contain a close request."


SPEC = S()


def run(tier, seed, t0):
    return D.run(SPEC, tier, seed, t0)


def replay(path):
    return D.do_replay(SPEC, path)
