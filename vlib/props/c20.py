"""C20 — value allocator = set of free integers, smallest first."""
import json, os, time
from .. import common as C

PROP = "C20"
TAGS = ["allocate", "first_vacant", "deallocate", "use_value", "is_used", "clear", "interval_count"]


def parse_case(line):
    t = line.split()
    nums = [int(x) for x in t[1:]]
    lo, hi, mx = nums[:3]
    ops = []
    i = 3
    while i < len(nums):
        tag, arg, pan = nums[i:i + 3]
        na = nums[i + 3]
        i += 4 + na
        ni = nums[i]
        i += 1 + 2 * ni
        ops.append((tag, arg))
    return lo, hi, mx, ops


def alloc_targets(prop):
    """make targets of the allocator check: the property's theorems, the monitors and checkers — never
    another property's regenerated obligations (GenChecks/*)"""
    return ["theories/Properties/%s.vo" % prop, "theories/Mon/All.vo", "theories/Corr/AllocCorr.vo", "theories/Corr/FramingCorr.vo"]


def impl_run(lo, hi, mx, ops):
    args = ["alloc-replay", lo, hi, mx]
    for t, a in ops:
        args += [t, a]
    return C.harness(args).strip()


def judge(line, which):
    return C.run_checker([line], rename=which)[0]


def shrink(line, which):
    """delta-debug the op list: every candidate is re-run on the implementation and re-judged."""
    lo, hi, mx, ops = parse_case(line)
    v = judge(line, which)
    if v is None:
        return line, v
    ops = ops[:v[0] + 1] if v and v[0] < len(ops) else ops
    changed = True
    while changed:
        changed = False
        i = 0
        while i < len(ops):
            cand = ops[:i] + ops[i + 1:]
            if cand:
                l2 = impl_run(lo, hi, mx, cand)
                if judge(l2, which) is not None:
                    ops = cand
                    changed = True
                    continue
            i += 1
    l2 = impl_run(lo, hi, mx, ops)
    return l2, judge(l2, which)


def describe(line, verdict, kind, prop="C20", tag=None):
    lo, hi, mx, ops = parse_case(line)
    s = "property: %s\n" % prop
    if tag:
        s += "stage: %s\n" % tag
    s += "kind: %s\nrange: [%d,%d] type-max %d\nops:\n" % (kind, lo, hi, mx)
    for t, a in ops:
        s += "  %s %d\n" % (TAGS[t], a)
    s += "verdict: %s\n" % verdict
    s += "  (verdict = [op index; code; detail...]; 906 1 = panic on a contract-respecting op; 906 2 = answer differs\n"
    s += "   from the set specification, detail = specified answer; 906 3 = interval list is not the canonical\n"
    s += "   representation, detail = expected intervals; 903/904 = model answer/state differs)\n"
    s += "case-line: %s\n" % line
    s += "replay: ./check %s --replay <this file>\n" % prop
    return s


def replay(path, prop="C20"):
    line = None
    for l in open(path):
        if l.startswith("case-line: "):
            line = l[len("case-line: "):].strip()
    if not line:
        print("no case-line in replay file")
        return 2
    C.coq_make(targets=alloc_targets(prop))
    C.build_checker()
    ok, out = C.build_harness()
    if not ok:
        print(out[-3000:])
        return 2
    lo, hi, mx, ops = parse_case(line)
    now = impl_run(lo, hi, mx, ops)
    vm = judge(now, "alloc_mon")
    vc = judge(now, "alloc")
    print("implementation now: %s" % now)
    print("monitor (set specification): %s" % ("ok" if vm is None else vm))
    print("model correspondence: %s" % ("ok" if vc is None else vc))
    return 1 if (vm is not None or vc is not None) else 0


def run(tier, seed, t0):
    return run_alloc("C20", None, tier, seed, t0)


def run_alloc(PROP, tag, tier, seed, t0):
    """the allocator check; as a stage of another property (tag set) it runs a smaller sample, skips the
    theorem obligations (the property's own run reads them) and names its replay files after the stage"""
    bad = C.hygiene()
    if bad:
        raise C.CheckError("forbidden tokens in the development: %s" % bad)
    ok, out = C.coq_make(targets=alloc_targets(PROP))
    if not ok:
        raise C.CheckError("Coq build failed:\n" + out[-3000:])
    ob = C.property_obligations(PROP) if tag is None else dict(ok=True, theorems=[], examples=[], assumptions=[], problems=[], out="")
    C.build_checker()
    ok, out = C.build_harness()
    if not ok:
        raise C.CheckError("harness build failed against /repo:\n" + out[-3000:])

    n = (3000 if tier == "quick" else 150000) if tag is None else (1500 if tier == "quick" else 40000)
    stem = PROP if tag is None else "%s-%s" % (PROP, tag)
    kpre = "" if tag is None else tag + "-"
    cases_path = os.path.join(C.RUN, "%s.cases" % stem)
    stats_path = os.path.join(C.RUN, "%s.stats" % stem)
    args = ["alloc", "--seed", seed, "--n", n, "--out", cases_path, "--stats", stats_path]
    if tier == "thorough":
        args += ["--enum", "4,4"]
    else:
        args += ["--enum", "3,3"]
    C.harness(args)
    gen = [l.rstrip("\n") for l in open(cases_path)]
    corpus = []
    cp = os.path.join(C.CORPUS, "C20.cases")   # the allocator corpus runs in every allocator stage too
    if os.path.exists(cp):
        for l in open(cp):
            l = l.strip()
            if l and not l.startswith("#"):
                lo, hi, mx, ops = parse_case(l)
                corpus.append(impl_run(lo, hi, mx, ops))
    lines = corpus + gen
    stats = json.load(open(stats_path))

    v_model = C.run_checker(lines, rename="alloc")
    v_mon = C.run_checker(lines, rename="alloc_mon")
    k = len(corpus) + 64
    x1, d1 = C.coq_crosscheck("C20a", "Corr.AllocCorr", "check_alloc", lines[:k], v_model[:k])
    x2, d2 = C.coq_crosscheck("C20m", "Corr.AllocCorr", "mon_alloc", lines[:k], v_mon[:k])
    if not (x1 and x2):
        raise C.CheckError("in-Coq evaluation disagrees with the extracted checker: %s %s" % (d1, d2))

    mon_fail = [i for i, v in enumerate(v_mon) if v is not None]
    cor_fail = [i for i, v in enumerate(v_model) if v is not None]
    violations = 0
    rc = 0
    # distinct non-trivial: distinct cases in which the pool was split into >= 2 intervals
    nontrivial = set()
    for l in lines:
        lo, hi, mx, ops = parse_case(l)
        if len(ops) >= 3 and any(t in (2, 3) for t, _ in ops):
            nontrivial.add(l)

    if not ob["ok"]:
        p = C.write_replay(PROP, "obligation", "property: " + PROP + "\nkind: obligation\nfailing: %s\n%s\n" % (ob["problems"], ob["out"][-3000:]))
        C.violation(PROP, p, no_input=True)
        violations += 1
        rc = 1
    if mon_fail:
        i = mon_fail[0]
        small, v = shrink(lines[i], "alloc_mon")
        p = C.write_replay(PROP, "%smonitor-%d" % (kpre, seed), describe(small, v, "monitor (implementation trace violates the set specification)", PROP, tag))
        C.violation(PROP, p)
        violations += len(mon_fail)
        rc = 1
    elif cor_fail:
        # model and implementation differ but the specification was met on everything so far:
        # targeted search with a 10x budget before giving up
        extra_path = os.path.join(C.RUN, "%s.search.cases" % stem)
        C.harness(["alloc", "--seed", seed + 7919, "--n", 10 * n, "--out", extra_path, "--enum", "4,4"])
        extra = [l.rstrip("\n") for l in open(extra_path)]
        v2 = C.run_checker(extra, rename="alloc_mon")
        hit = [j for j, v in enumerate(v2) if v is not None]
        if hit:
            small, v = shrink(extra[hit[0]], "alloc_mon")
            p = C.write_replay(PROP, "%smonitor-%d" % (kpre, seed), describe(small, v, "monitor (found by targeted search after a correspondence mismatch)", PROP, tag))
            C.violation(PROP, p)
        else:
            small, v = shrink(lines[cor_fail[0]], "alloc")
            body = describe(small, v, "correspondence", PROP, tag)
            body += "no-longer-checked: correspondence Corr.AllocCorr.check_alloc (model Alloc.a_step vs ValueAllocator); theorem C20_alloc_refines_set is about the model only\n"
            p = C.write_replay(PROP, "%scorrespondence-%d" % (kpre, seed), body)
            C.violation(PROP, p, no_input=True)
        os.remove(extra_path)
        violations += len(cor_fail)
        rc = 1

    nthm = len(ob["theorems"])
    coverage = dict(
        obligations=nthm, discharged=nthm if ob["ok"] else 0,
        checker_cmd="cd /verif/coq && make -j16 theories/Properties/%s.vo  (coqc 8.16.1; Print Assumptions re-read every run)" % PROP,
        trusted_base=C.TRUSTED_BASE,
        theorems=ob["theorems"], examples=ob["examples"], print_assumptions=ob["assumptions"],
        evaluations=len(lines), distinct_nontrivial=len(nontrivial),
        rule="seeded random op sequences (1-200 ops) over 10 ranges incl. u16/u32 extremes, values biased to interval edges +-1, "
             "plus every op sequence of length %s over [1,%s] (a generator stream, not the proof); non-trivial = distinct case with >= 3 ops "
             "including a deallocate or use_value; every call under catch_unwind; the interval list (hook) is compared after every op" %
             (("4", "4") if tier == "thorough" else ("3", "3")),
        traces_validated_against_impl=len(lines), correspondence_mismatches=len(cor_fail), monitor_failures=len(mon_fail),
        in_coq_crosscheck="%s; %s" % (d1, d2), generator=stats, corpus_cases=len(corpus),
        samples=[lines[len(corpus)] if len(lines) > len(corpus) else lines[0], lines[-1]],
        exhaustive=False,
    )
    C.write_evidence(PROP, tier, seed, coverage,
                     ["the application contract: deallocate only a value in use (what release_packet_id's guard ensures)",
                      "model is hand-written; tie = differential correspondence incl. representation after every op"],
                     time.time() - t0, violations)
    os.remove(cases_path)
    return rc
