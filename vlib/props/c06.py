"""C06 — see DESIGN.md §3."""
from .. import connprop as K
from .. import diffprop as D


class S(K.ConnSpec):
    num = 6
    bias = 6
    extra_rule = 'Bias 6: many QoS1/2 publishes (with/without alias), acknowledgements (matching, wrong kind, wrong id, duplicate, error reason codes), offline publishing, disconnects and reconnects (clean/persistent, session present or not). The monitor keeps a ghost store built from operations and events only and compares it with the exported store and the in-flight id sets; it checks the resume order right after CONNACK (DUP, full topic, no alias) and that unmatched acknowledgements erase/free nothing.'


SPEC = S()


def run(tier, seed, t0):
    return D.run(SPEC, tier, seed, t0)


def replay(path):
    return D.do_replay(SPEC, path)
