"""C04 — decoder totality: no panic on any bytes; accepted input is canonical and valid."""
import os
from .. import common as C
from .. import diffprop as D
from .. import pkprop as K


class S(D.Spec):
    prop = "C04"
    coq_module = "Mon.All"
    model_fn = ("chk_c04", "chk_c04")
    monitor_fn = ("mon_c04", "mon_c04")
    corpus_file = os.path.join(C.CORPUS, "C04.cases")
    rule = ("bytes fed to every packet parser (29 kinds, one fifth with 32-bit identifiers) under catch_unwind: EXHAUSTIVE bodies of length <= 1 "
            "(quick) / <= 2 (thorough) for every parser and fixed-header flag combination; structured mutations of valid encodings of every kind "
            "(1-3 of: bit flip, truncation at a random offset, insertion of 0x00/0x80/0xFF, deletion, boundary byte values, +/-1 on a byte - "
            "which hits every length field -, a non-minimal Variable Byte Integer in place of a small byte, random tail; one in ten with a flipped "
            "fixed-header flag bit); unmutated valid encodings; uniformly random bodies. Recorded: panic / error / accepted packet with consumed "
            "count, size(), re-serialisation, re-parse, accessor values. The monitor (implementation alone): no panic, consumed <= given, size() = "
            "length of the re-serialisation, re-parse equal, builder rules hold on the accessor values. Correspondence: whatever the strict reference "
            "decoder accepts the library accepts with the same field values. non-trivial = body of >= 2 bytes.")
    assumptions = K.PkSpec.assumptions + ["leniencies of the library that are self-consistent and break no builder rule are modelled as they are (Corr/PkCorr.v body_ok_lib; DESIGN.md §3 C04)"]
    no_longer_checked = "correspondence Corr.PkCorr.chk_c04 (reference decoder Packet.Decode.decode_body vs the 29 parsers)"

    def gen(self, tier, seed, out_path, stats_path, search=False):
        n = 40000 if tier == "quick" else 1500000
        el = 1 if tier == "quick" else 2
        if search:
            n *= 2
        C.harness(["pk-parse", "--seed", seed, "--n", n, "--enum-len", el, "--out", out_path, "--stats", stats_path])

    def replay_line(self, line):
        t = line.split()
        n = int(t[4])
        return C.harness(["pk-parse-replay"] + t[1:5 + n]).strip()

    def shrink_candidates(self, line, verdict):
        t = line.split()
        n = int(t[4])
        body = t[5:5 + n]
        for i in range(n - 1, -1, -1):
            keep = body[:i] + body[i + 1:]
            yield C.harness(["pk-parse-replay"] + t[1:4] + [len(keep)] + keep).strip()

    def describe(self, line, verdict, kind):
        t = line.split()
        n = int(t[4])
        fh = int(t[3])
        return ("property: C04\nkind: %s\nverdict: %s  (906 c: monitor clause - 1 panic, 2 consumed more than given, 3 size() differs from the re-serialisation, "
                "4 re-parse differs, 5 a builder rule is broken by the accepted packet; 912: the library rejects a valid encoding; 913: field values differ)\n"
                "parser: MQTT %s, %s-byte packet identifiers, %s (fixed header 0x%02x)\nbody bytes (hex): %s\n"
                "library result: %s\ncase-line: %s\nreplay: ./check C04 --replay <this file>\n"
                % (kind, verdict, "5.0" if t[1] == "5" else "3.1.1", t[2], K.KINDS.get(fh >> 4, "?"), fh,
                   " ".join("%02x" % int(x) for x in t[5:5 + n]),
                   {"2": "PANIC", "0": "error %s" % (t[6 + n] if len(t) > 6 + n else "")}.get(t[5 + n], "accepted (consumed %s, size %s)" % tuple(t[6 + n:8 + n]) if len(t) > 7 + n else "?"),
                   line[:3000]))

    def nontrivial(self, line):
        return int(line.split()[4]) >= 2


SPEC = S()


def run(tier, seed, t0):
    return D.run(SPEC, tier, seed, t0)


def replay(path):
    return D.do_replay(SPEC, path)
