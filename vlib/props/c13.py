"""C13 — see DESIGN.md §3."""
from .. import connprop as K
from .. import diffprop as D


class S(K.ConnSpec):
    num = 13
    bias = 13
    extra_rule = 'Bias 13: publishes over a small topic/alias alphabet with manual aliases, auto-map, auto-replace, refusals in between, Topic Alias Maximum 0..n, reconnects. The monitor replays the packets requested for sending through an independent receiver-side alias table and requires every empty-topic PUBLISH to resolve to the topic the application asked for; on receipt the delivered topic must be the one bound on this connection; stored packets must carry the full topic and no alias.'


SPEC = S()


def run(tier, seed, t0):
    return D.run(SPEC, tier, seed, t0)


def replay(path):
    return D.do_replay(SPEC, path)
