"""C05 — see DESIGN.md §3."""
from .. import connprop as K
from .. import diffprop as D


class S(K.ConnSpec):
    num = 5
    bias = 0
    extra_rule = 'C05 compares the FULL digest, all events, return values and panics (the projection is the identity). Every call runs under catch_unwind in a debug build (overflow checks and debug assertions on). The monitor flags any panic of a contract case, any received complete frame that is neither delivered, answered, nor reported by an error event, and a CONNECT refused after notify_closed.'


SPEC = S()


def run(tier, seed, t0):
    return D.run(SPEC, tier, seed, t0)


def replay(path):
    return D.do_replay(SPEC, path)
