"""C17 — receive gating by role, and protocol-version auto-detection."""
import os
from .. import common as C
from .. import connprop as K
from .. import diffprop as D


class S(K.ConnSpec):
    num = 17
    bias = 0
    extra_rule = ("The monitor uses only the MQTT rule table (may_receive) and the framing model to identify the frame completed by each "
                  "recv(): PLUS the exhaustive receive matrix role x version x status x 16 type nibbles (+ protocol levels 3,4,5,6 for undetermined servers), 460 cells; forbidden kinds, CONNECT/CONNACK on established connections and first frames of undetermined servers are judged.")


    def gen(self, tier, seed, out_path, stats_path, search=False):
        super().gen(tier, seed, out_path, stats_path, search)
        tmp = out_path + ".m"
        C.harness(["conn-recv-matrix", "--out", tmp, "--stats", stats_path + ".m"])
        with open(out_path, "a") as f:
            f.write(open(tmp).read())
        os.remove(tmp)
        if os.path.exists(stats_path + ".m"):
            os.remove(stats_path + ".m")


SPEC = S()


def run(tier, seed, t0):
    return D.run(SPEC, tier, seed, t0)


def replay(path):
    return D.do_replay(SPEC, path)
