"""C15 — keep-alive timer requests are consistent and complete."""
from .. import connprop as K
from .. import diffprop as D


class S(K.ConnSpec):
    num = 15
    bias = 15
    extra_rule = ("Bias 15 raises the share of keep-alive settings (CONNECT keep-alive 0/10/60, Server Keep Alive absent/0/k, application "
                  "override none/0/k, response timeout 0/k) and of timer expiries. The monitor keeps an observer of armed timers built only "
                  "from the events and reported expiries and checks it against the connection's own flags (hook), the disarm-on-close/"
                  "DISCONNECT clauses, the interval priority and the 1.5 x keep-alive rule, and the expiry effects.")


SPEC = S()


def run(tier, seed, t0):
    return D.run(SPEC, tier, seed, t0)


def replay(path):
    return D.do_replay(SPEC, path)
