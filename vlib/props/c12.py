"""C12 — see DESIGN.md §3."""
from .. import connprop as K
from .. import diffprop as D


class S(K.ConnSpec):
    num = int("12")
    bias = {8: 0, 12: 12}[int("12")]
    extra_rule = {8: "The monitor reads the in-use id set from the hook and keeps a ghost of which ids the application is responsible for; it checks acquire/register answers, that every announced release turns an in-use id free exactly once, that nothing else changes the set (except the wholesale reset when a new session starts), and that nothing the library owned stays in use after a non-persistent close; id-management calls must not panic for any id value (abuse cases included).",
                  12: "Bias 12 uses Receive Maximum 1/2/3/65535 and many QoS1/2 publishes, acks (success/error), erasures, refusals, reconnects with stored packets and restored sessions. The monitor keeps a ghost set of open outbound exchanges built from operations and events only and compares its size with publish_send_count and the vacancy getter; inbound quota is checked too."}[int("12")]


SPEC = S()


def run(tier, seed, t0):
    return D.run(SPEC, tier, seed, t0)


def replay(path):
    return D.do_replay(SPEC, path)
