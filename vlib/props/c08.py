"""C08 — see DESIGN.md §3."""
from .. import connprop as K
from .. import diffprop as D


class S(K.ConnSpec):
    num = int("08")
    bias = {8: 0, 12: 12}[int("08")]
    extra_rule = {8: "The monitor reads the in-use id set from the hook and keeps a ghost of which ids the application is responsible for; it checks acquire/register answers, that every announced release turns an in-use id free exactly once, that nothing else changes the set (except the wholesale reset when a new session starts), and that nothing the library owned stays in use after a non-persistent close; id-management calls must not panic for any id value (abuse cases included).",
                  12: "Bias 12 uses Receive Maximum 1/2/3/65535 and many QoS1/2 publishes, acks (success/error), erasures, refusals, reconnects with stored packets and restored sessions. The monitor keeps a ghost set of open outbound exchanges built from operations and events only and compares its size with publish_send_count and the vacancy getter; inbound quota is checked too."}[int("08")]


SPEC = S()


from .. import stages as G

STAGES = [
    G.conn_stage("C08", 6, 6, 1200, 30000, 'Ownership stage of C08: an identifier the library took with an accepted send is never leaked — the monitor mon_c06 requires that an accepted QoS>0 PUBLISH or PUBREL is requested for sending at once or kept in the store (an accepted packet that is neither is an exchange that can never complete: its identifier stays in use for ever), and that stored packets leave the store, and their identifiers their sets, only for a reason.', 'store'),
    G.AllocStage("C08"),
]


def run(tier, seed, t0):
    return G.run_with_stages("C08", SPEC, STAGES, tier, seed, t0)


def replay(path):
    return G.replay(path, SPEC, STAGES)
