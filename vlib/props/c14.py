"""C14 — see DESIGN.md §3."""
from .. import connprop as K
from .. import diffprop as D


class S(K.ConnSpec):
    num = 14
    bias = 14
    extra_rule = 'Bias 14: Maximum Packet Size limits chosen around the actual packet sizes (size-1, size, size+1, and 1..4) in both directions, all packet kinds and all send paths (direct, automatic responses, stored on resume, alias-rewritten). The monitor requires size <= limit for every ESend on a v5.0 connection, release of dropped stored packets, and DISCONNECT 0x95/no delivery for oversize inbound frames.'


SPEC = S()


def run(tier, seed, t0):
    return D.run(SPEC, tier, seed, t0)


def replay(path):
    return D.do_replay(SPEC, path)
