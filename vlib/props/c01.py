"""C01 — two endpoints built on the library interoperate, even across transport loss."""
import os
from .. import common as C
from .. import diffprop as D
from ..showduo import describe as duo_describe


class S(D.Spec):
    prop = "C01"
    coq_module = "Mon.All"
    model_fn = ("chk_duo", "chk_duo")
    monitor_fn = ("mon_c01", "mon_c01")
    corpus_file = os.path.join(C.CORPUS, "C01.cases")
    rule = ("seeded systems of a Client object and a Server object (v3.1.1 or v5.0) wired by two byte queues: persistent session; negotiated limits "
            "held constant across resumes (Receive Maximum none/1/2/3, Topic Alias Maximum none/0/1/2, Maximum Packet Size none/300/1000, "
            "keep-alive 0); automatic responses per side on/off (the harness's application then acknowledges as a correct application does), "
            "server application answering CONNECT/SUBSCRIBE/UNSUBSCRIBE/PINGREQ. 10-70 scheduler steps chosen from: deliver a random non-empty "
            "prefix of either direction (any fragmentation, per-direction order preserved), a workload call from either side once both are "
            "connected (publish QoS0/1/2 with unique payload, with or without a manual topic alias incl. alias-only publishes, "
            "subscribe/unsubscribe, ping; flow control respected through the vacancy getter), a transport loss (bytes in flight discarded at an "
            "arbitrary point incl. mid-frame, both sides notify_closed, client reconnects, server answers session present). Then the workload "
            "stops and everything is delivered (at most 400 rounds). Monitor on the two implementation traces: no panic, no error event on either "
            "side, the exchange comes to rest, QoS2 notified exactly once / QoS1 at least once (exactly once without loss) / QoS0 at most once "
            "with the original topic and payload, and at rest both sides have all identifiers free, empty stores, no in-flight sets, send count 0. "
            "Both objects are compared with the model on the full digest. non-trivial = case with >= 1500 tokens.")
    assumptions = ["the harness plays the I/O layer and both applications (conn_duo.rs); timers are not armed (keep-alive 0)",
                   "delivery identity of a message = its unique payload length; payload bytes are compared by the harness"]
    no_longer_checked = "correspondence Mon.MonDuo.chk_duo (model Conn.Step.step vs both GenericConnection objects, full digest)"

    def gen(self, tier, seed, out_path, stats_path, search=False):
        n = 5000 if tier == "quick" else 100000
        if search:
            n *= 3
        C.harness(["conn-duo", "--seed", seed, "--n", n, "--out", out_path, "--stats", stats_path])

    def replay_line(self, line):
        # the scheduler is seeded per case: the case seed re-runs it on the current implementation
        return C.harness(["conn-duo-replay", line.split()[1]]).strip()

    def shrink_candidates(self, line, verdict):
        return []

    def describe(self, line, verdict, kind):
        s = ("property: C01\nkind: %s\nverdict: %s  (906 c: 1 panic, 2 error event (last number: 0 client / 1 server; first number: call index on that side), "
             "3 does not come to rest, 4 payload differs, 5/6/7 QoS2/QoS1/QoS0 delivery count (tag = payload length, count, direction 0 = client->server), "
             "8 not quiescent (1 ids in use, 2 store, 3 send count, 4 in-flight sets; side), 9 topic differs)\n" % (kind, verdict))
        try:
            s += duo_describe(line)[-60000:]
        except Exception as e:
            s += "(could not decode: %s)\n" % e
        s += "case-seed: %s (verif-harness conn-duo-replay <seed> re-runs the scheduler)\n" % line.split()[1]
        s += "case-line: %s\nreplay: ./check C01 --replay <this file>\n" % line
        return s

    def nontrivial(self, line):
        return line.count(" ") >= 1500


SPEC = S()


def run(tier, seed, t0):
    return D.run(SPEC, tier, seed, t0)


def replay(path):
    return D.do_replay(SPEC, path)
