"""C11 — send gating: role x version x connection-state matrix matches the MQTT rules."""
import os
from .. import common as C
from .. import connprop as K
from .. import diffprop as D


class S(K.ConnSpec):
    num = 11
    bias = 0
    quick_n = 1500
    extra_rule = ("PLUS the exhaustive matrix: role {Client,Server,Any(as client and as server)} x connection version {3.1.1,5.0,undetermined} x "
                  "status {disconnected,connecting,connected} x all 29 packet kinds x {persistent,offline} flags = 3248 reachable cells, each a "
                  "short case ending in the send under test; and the 87-cell compile-time Sendable table (rustc trait resolution) compared by a "
                  "Coq obligation (GenChecks/C11.v) regenerated on every run.")

    def gen(self, tier, seed, out_path, stats_path, search=False):
        super().gen(tier, seed, out_path, stats_path, search)
        tmp = out_path + ".m"
        C.harness(["conn-matrix", "--out", tmp, "--stats", stats_path + ".m"])
        with open(out_path, "a") as f:
            f.write(open(tmp).read())
        os.remove(tmp)
        if os.path.exists(stats_path + ".m"):
            os.remove(stats_path + ".m")


    def obligation_failure(self, out):
        if "GenChecks/C11.v" not in out:
            return None
        # which cells of the compile-time table differ from the rule table?
        scratch = os.path.join(C.RUN, "c11_mismatch.v")
        with open(scratch, "w") as f:
            f.write("From MQ Require Import Base.Prelude GenChecks.C11Defs.\nEval vm_compute in sendable_mismatches.\n")
        rc, o = C.sh("coqc -Q theories MQ -w -all %s" % scratch, cwd=C.COQ)
        for ext in (".v", ".vo", ".glob", ".vok", ".vos"):
            try:
                os.remove(scratch[:-2] + ext)
            except OSError:
                pass
        text = ("property: C11\nkind: obligation (compile-time checked_send table vs MQTT rule table)\n"
                "failing-theorem: GenChecks.C11.observed_sendable_is_rule_table\n"
                "cells (packet version, type nibble, role 0=Client 1=Server 2=Any, `T: Sendable<Role>` as compiled) that differ from "
                "Spec.MqttRules.role_may_originate:\n%s\n"
                "replay: the cell is the input: `checked_send` of that packet type on a connection of that role now %s although the rule table says otherwise\n"
                % (o.strip(), "compiles / is rejected at compile time"))
        return ("obligation over the regenerated compile-time table failed", text, True)


SPEC = S()


def run(tier, seed, t0):
    # the compile-time table is re-read from the compiled crate on every run
    ok, out = C.build_harness()
    if not ok:
        raise C.CheckError("harness build failed against /repo:\n" + out[-3000:])
    C.ensure_generated(force=True)
    return D.run(SPEC, tier, seed, t0)


def replay(path):
    return D.do_replay(SPEC, path)
