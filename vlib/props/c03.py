"""C03 — wire format matches the MQTT specification (independent reference codec)."""
import os
from .. import common as C
from .. import diffprop as D
from .. import pkprop as K


class S(K.PkSpec):
    prop = "C03"
    monitor_fn = ("mon_c03", "mon_c03")
    corpus_file = os.path.join(C.CORPUS, "C03.cases")
    no_longer_checked = ("correspondence Corr.PkCorr.chk_pk (reference codec vs the library) and the constants obligation GenChecks.C03")

    def obligation_failure(self, out):
        if "GenChecks/C03.v" not in out and "Properties/C03.v" not in out:
            return None
        scratch = os.path.join(C.RUN, "c03_mismatch.v")
        with open(scratch, "w") as f:
            f.write("From MQ Require Import Base.Prelude GenChecks.C03Defs Generated.ObservedCodes.\n"
                    "Eval vm_compute in code_mismatches.\nEval vm_compute in (observed_fixed_headers, spec_fixed_headers).\n")
        rc, o = C.sh("coqc -Q theories MQ -w -all %s" % scratch, cwd=C.COQ)
        for ext in (".v", ".vo", ".glob", ".vok", ".vos"):
            try:
                os.remove(scratch[:-2] + ext)
            except OSError:
                pass
        text = ("property: C03\nkind: obligation (wire-format constants of the compiled crate vs the specification)\n"
                "failing-theorem: GenChecks.C03.observed_codes_are_spec / observed_fixed_headers_are_spec\n"
                "1) per enum (1 ConnectReturnCode 2 ConnectReasonCode 4 Puback 5 Pubrec 6 Pubrel 7 Pubcomp 8 SubackReturnCode 9 SubackReasonCode "
                "11 Unsuback 14 Disconnect 15 Auth) the byte values on which try_from differs from the specification; 2) fixed headers observed vs specified:\n%s\n"
                "replay: the byte value is the input: `<Enum>::try_from(byte)` / `FixedHeader::<Kind>.as_u8()`\n" % o.strip())
        return ("obligation over the regenerated constants failed", text, True)


SPEC = S()
SPEC.rule = K.PkSpec.rule + (" The monitor: the library's bytes ARE the reference encoding of the field values, the reference decoder reads them back, "
                             "the library re-parses them to an equal packet and its accessors report the generated field values. PLUS the constants: "
                             "11 reason/return-code enums x 256 byte values and 15 fixed-header bytes, regenerated every run and compared by Coq theorems.")


def run(tier, seed, t0):
    ok, out = C.build_harness()
    if not ok:
        raise C.CheckError("harness build failed against /repo:\n" + out[-3000:])
    C.ensure_generated(force=True)
    return D.run(SPEC, tier, seed, t0)


def replay(path):
    return D.do_replay(SPEC, path)
