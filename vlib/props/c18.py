"""C18 — v5.0 property placement and multiplicity follow the specification table."""
import os
from .. import common as C
from .. import diffprop as D


class S(D.Spec):
    prop = "C18"
    coq_module = "Mon.All"
    model_fn = ("chk_c18", "chk_c18")
    monitor_fn = ("mon_c18", "mon_c18")
    corpus_file = os.path.join(C.CORPUS, "C18.cases")
    rule = ("EXHAUSTIVE and regenerated on every run: 14 property-carrying locations (CONNECT, will, CONNACK, PUBLISH, PUBACK, PUBREC, "
            "PUBREL, PUBCOMP, SUBSCRIBE, SUBACK, UNSUBSCRIBE, UNSUBACK, DISCONNECT, AUTH) x 27 property identifiers, each location on TWO base packets (minimal; and other flags / a failure reason code / "
            "several entries / AUTH with Continue-authentication, locations 101..116) x {once, twice with the same value, twice with two different values} = 2268 cells, each through the BUILDER path (library constructors) and the PARSER path (packet bytes encoded by hand in the harness, "
            "independently of the library's serialisation); boundary values {0,1,2,..,max} of every numeric property through constructor and "
            "parser; all 229 unknown identifier bytes. The three tables are written to Generated/ObservedProps.v and compared with the "
            "specification table by Coq theorems (GenChecks/C18.v). PLUS seeded random property lists of 0-6 entries per location (biased to "
            "the location's legal set) through both paths, compared with the rule for lists of any length; the monitor requires builder and "
            "parser to agree with each other on every list. non-trivial = list with >= 2 entries.")
    assumptions = ["the specification table (Packet/Props.v locs_of_prop, prop_repeatable, value_ok) was written by hand from MQTT v5.0 Table 2-4 and sections 3.x.2",
                   "16 locations in the property text = these 14 with PUBLISH/CONNECT counted per packet-id width; both widths share the validators",
                   "cross-property dependencies (Authentication Data needs Authentication Method) are outside C18: cells for Authentication Data carry one Authentication Method"]
    no_longer_checked = "correspondence Corr.PropsCorr.chk_c18 (specification rule placement_ok vs the builders and parsers of the v5.0 packets); theorems C18_* about lists are about the rule"

    def coq_targets(self):
        return ["theories/Properties/C18.vo", "theories/Mon/All.vo", "theories/Corr/AllocCorr.vo", "theories/Corr/FramingCorr.vo"]

    def gen(self, tier, seed, out_path, stats_path, search=False):
        n = 4000 if tier == "quick" else 200000
        if search:
            n *= 2
        C.harness(["props-lists", "--seed", seed, "--n", n, "--out", out_path, "--stats", stats_path])

    def replay_line(self, line):
        t = line.split()
        n = int(t[2])
        return C.harness(["props-replay"] + t[1:3 + n]).strip()

    def shrink_candidates(self, line, verdict):
        t = line.split()
        loc, n = t[1], int(t[2])
        ids = t[3:3 + n]
        for i in range(n):
            keep = ids[:i] + ids[i + 1:]
            yield C.harness(["props-replay", loc, len(keep)] + keep).strip()

    def describe(self, line, verdict, kind):
        t = line.split()
        n = int(t[2])
        return ("property: C18\nkind: %s\nverdict: %s  (906 1: builder and parser disagree; 906 2 / 903 / 904: builder or parser differs from the specification rule)\n"
                "location (1 CONNECT 2 CONNACK 3 PUBLISH 4 PUBACK 5 PUBREC 6 PUBREL 7 PUBCOMP 8 SUBSCRIBE 9 SUBACK 10 UNSUBSCRIBE 11 UNSUBACK 14 DISCONNECT 15 AUTH 16 will; +100 = the second base packet of that location): %s\n"
                "property identifiers, in order: %s\nbuilder accepts: %s\nparser accepts: %s\ncase-line: %s\nreplay: ./check C18 --replay <this file>\n"
                % (kind, verdict, t[1], " ".join(t[3:3 + n]), t[3 + n], t[4 + n], line))

    def nontrivial(self, line):
        return int(line.split()[2]) >= 2

    def obligation_failure(self, out):
        if "GenChecks/C18.v" not in out and "Properties/C18.v" not in out:
            return None
        scratch = os.path.join(C.RUN, "c18_mismatch.v")
        with open(scratch, "w") as f:
            f.write("From MQ Require Import Base.Prelude GenChecks.C18Defs Generated.ObservedProps.\n"
                    "Eval vm_compute in prop_mismatches.\nEval vm_compute in value_mismatches.\nEval vm_compute in observed_unknown_ids_accepted.\n")
        rc, o = C.sh("coqc -Q theories MQ -w -all %s" % scratch, cwd=C.COQ)
        for ext in (".v", ".vo", ".glob", ".vok", ".vos"):
            try:
                os.remove(scratch[:-2] + ext)
            except OSError:
                pass
        text = ("property: C18\nkind: obligation (property tables read off the compiled crate vs the specification table)\n"
                "failing-theorem: GenChecks.C18.observed_props_are_spec_table / observed_values_are_spec_rules / no_unknown_property_accepted\n"
                "1) cells (location, property id, occurrences, builder accepts, parser accepts) that differ from the specification;\n"
                "2) value rows (property id, value, constructor accepts, parser accepts) that differ; 3) unknown identifiers accepted:\n%s\n"
                "replay: each cell is the input: a packet of that location carrying that property that many times "
                "(Authentication Data accompanied by one Authentication Method), built with the builder / parsed from hand-encoded bytes\n" % o.strip())
        return ("obligation over the regenerated property tables failed", text, True)


SPEC = S()


def run(tier, seed, t0):
    ok, out = C.build_harness()
    if not ok:
        raise C.CheckError("harness build failed against /repo:\n" + out[-3000:])
    C.ensure_generated(force=True)
    return D.run(SPEC, tier, seed, t0)


def replay(path):
    return D.do_replay(SPEC, path)
