"""C09 — stream framing is independent of chunking."""
import os
from .. import common as C
from .. import diffprop as D


def parse(line):
    nums = [int(x) for x in line.split()[1:]]
    n = nums[0]
    i = 1
    chunks = []
    for _ in range(n):
        l = nums[i]
        chunks.append(nums[i + 1:i + 1 + l])
        i += 1 + l
        nc = nums[i]
        i += 1
        for _ in range(nc):
            nb = nums[i + 2]
            i += 3 + nb + 1
    return chunks


def run_impl(chunks):
    args = ["framing-replay", len(chunks)]
    for c in chunks:
        args += [len(c)] + list(c)
    return C.harness(args).strip()


class S(D.Spec):
    prop = "C09"
    coq_module = "Corr.FramingCorr"
    model_fn = ("framing", "check_framing")
    monitor_fn = ("framing_mon", "mon_framing")
    corpus_file = os.path.join(C.CORPUS, "C09.cases")
    rule = ("streams of 1-6 concatenated frames (any header byte; remaining lengths 0,1,2,127,128,129,300,16383,16384 "
            "[+2097151/2097152 in thorough], minimal and padded non-minimal length encodings, five-byte length fields, a cut last frame) "
            "fed to PacketBuilder::feed as one buffer, as all single bytes, at EVERY single split point (streams <= 48 bytes) and in random "
            "partitions with empty buffers; every feed() call's result and cursor advance is recorded; non-trivial = distinct case with >= 2 chunks")
    assumptions = ["bytes are < 256 (by type in the implementation; wfb in the theorems)",
                   "the model of feed() is hand-written; tie = per-call differential correspondence (result, body, cursor advance)"]
    no_longer_checked = ("correspondence Corr.FramingCorr.check_framing (model Framing.feed vs PacketBuilder::feed); "
                         "theorems C09_* are about the model only")

    def gen(self, tier, seed, out_path, stats_path, search=False):
        n = 250 if tier == "quick" else 6000
        if search:
            n *= 6
        args = ["framing", "--seed", seed, "--n", n, "--out", out_path, "--stats", stats_path]
        if tier == "thorough":
            args.append("--thorough")
        C.harness(args)

    def replay_line(self, line):
        return run_impl(parse(line))

    def shrink_candidates(self, line, verdict):
        chunks = parse(line)
        # drop a whole chunk; merge two neighbours; drop one byte
        for i in range(len(chunks)):
            if len(chunks) > 1:
                yield run_impl(chunks[:i] + chunks[i + 1:])
        for i in range(len(chunks) - 1):
            yield run_impl(chunks[:i] + [chunks[i] + chunks[i + 1]] + chunks[i + 2:])
        total = sum(len(c) for c in chunks)
        if total <= 400:
            for i in range(len(chunks)):
                for j in range(len(chunks[i])):
                    c2 = chunks[i][:j] + chunks[i][j + 1:]
                    yield run_impl(chunks[:i] + [c2] + chunks[i + 1:])

    def describe(self, line, verdict, kind):
        chunks = parse(line)
        s = "property: C09\nkind: %s\nchunks fed to PacketBuilder::feed (bytes in hex):\n" % kind
        for c in chunks:
            s += "  [%s]\n" % " ".join("%02x" % b for b in c[:200]) + ("" if len(c) <= 200 else "  ... (%d bytes)\n" % len(c))
        s += "verdict: %s\n" % verdict
        s += ("  (906 1 = a chunk was not consumed completely; 906 2 n m = the implementation returned n non-Incomplete results, the\n"
              "   declarative reading of the whole stream has m (or they differ in kind/header/body); 903/904 = a feed() call's result or\n"
              "   cursor advance differs from the model's)\n")
        s += "case-line: %s\n" % line
        s += "replay: ./check C09 --replay <this file>\n"
        return s

    def nontrivial(self, line):
        return int(line.split()[1]) >= 2


SPEC = S()

from .. import connprop as K


class ConnStage(K.ConnSpec):
    """C09 at the connection level: Connection::recv on split / merged / garbage buffers inside connection histories"""
    num = 9
    bias = 0
    quick_n = 1500
    thorough_n = 40000
    extra_rule = ("Connection-level stage of C09: Connection::recv is fed split and merged buffers, garbage and over-long Remaining Length "
                  "fields inside connection histories; the monitor runs the framing model (proved chunking-independent) on the builder "
                  "state and the buffer and requires the reported unread count, the absence of events for an incomplete frame and the kept "
                  "partial frame to agree; the projection correspondence compares builder state, all events and the unread count.")

    def __init__(self):
        K.ConnSpec.__init__(self)
        self.prop = "C09"
        self.corpus_file = os.path.join(C.CORPUS, "C09conn.cases")


CONN_STAGE = ConnStage()


def run(tier, seed, t0):
    import json, time
    rc1 = D.run(CONN_STAGE, tier, seed, t0)
    ev_path = os.path.join(C.VERIF, "evidence", "C09.json")
    stage = None
    if os.path.exists(ev_path):
        stage = json.load(open(ev_path))
    rc2 = D.run(SPEC, tier, seed, t0)
    if stage is not None and os.path.exists(ev_path):
        ev = json.load(open(ev_path))
        cov = stage.get("coverage", {})
        ev["coverage"]["connection_level_stage"] = {k: cov.get(k) for k in ("evaluations", "distinct_nontrivial", "rule", "correspondence_mismatches",
                                                                            "monitor_failures", "in_coq_crosscheck", "generator")}
        if "violations" in stage and "violations" in ev:
            try:
                ev["violations"] = ev["violations"] + stage["violations"]
            except Exception:
                pass
        json.dump(ev, open(ev_path, "w"), indent=1)
    return 1 if (rc1 or rc2) else 0


def replay(path):
    txt = open(path).read()
    if "case-line: conn" in txt:
        return D.do_replay(CONN_STAGE, path)
    return D.do_replay(SPEC, path)
