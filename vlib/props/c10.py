"""C10 — see DESIGN.md §3."""
from .. import pairprop as K
from .. import diffprop as D


class S(K.PairSpec):
    num = 10
    kind = 10
    bias = 0
    extra_rule = 'Paired runs: a first-connection history H (any traffic, any negotiated properties, any close path) on object A; then notify_closed, release of the identifiers the application holds, and a common script S that starts a new session (clean-start CONNECT sent/received, or CONNECT + CONNACK with session present 0) — run on A and on a fresh object B constructed with the same options. The monitor compares the two IMPLEMENTATION traces: events and return values of every call of S and, from the call that establishes the new session on, the full 34-field digest (the clause names the differing field group). Both traces are also checked against the model.'


SPEC = S()


from .. import stages as G

STAGES = [G.conn_stage("C10", 12, 12, 1500, 30000, "Connection-scope stage of C10: the per-connection flow-control accounts start anew on EVERY connection, resumed sessions included — the monitor mon_c12 keeps a ghost count of the inbound QoS>0 PUBLISH of the CURRENT connection (reset at each connection start) and requires that a peer within the announced Receive Maximum is never answered with 'Receive Maximum exceeded', and that the send-side vacancy equals the ghost count of open exchanges.", 'quota')]


def run(tier, seed, t0):
    return G.run_with_stages("C10", SPEC, STAGES, tier, seed, t0)


def replay(path):
    return G.replay(path, SPEC, STAGES)
