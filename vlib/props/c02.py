"""C02 — codec round-trip."""
import os
from .. import common as C
from .. import diffprop as D
from .. import pkprop as K


class S(K.PkSpec):
    prop = "C02"
    monitor_fn = ("mon_c02", "mon_c02")
    corpus_file = os.path.join(C.CORPUS, "C02.cases")
    no_longer_checked = ("correspondence Corr.PkCorr.chk_pk (reference codec Packet.Packets.encode / packet_ok vs the builders and "
                         "to_continuous_buffer of all 29 packet kinds); theorems C02_* are about the reference codec only")


SPEC = S()
SPEC.rule = K.PkSpec.rule + (" The monitor (implementation alone): size() = serialised length = concatenated to_buffers(); the bytes re-parse to "
                             "an equal packet consuming exactly the body; the Remaining Length field equals the body length; no panic.")


def run(tier, seed, t0):
    return D.run(SPEC, tier, seed, t0)


def replay(path):
    return D.do_replay(SPEC, path)
