"""C07 — see DESIGN.md §3."""
from .. import connprop as K
from .. import diffprop as D


class S(K.ConnSpec):
    num = 7
    bias = 7
    extra_rule = 'Bias 7: PUBLISH(QoS2,id,dup)/PUBREL(id) from the peer over a few ids interleaved with local PUBREC(success/error)/PUBCOMP, disconnect, clean and resumed reconnects, export/restore of the handled set, automatic responses on/off. The monitor keeps a ghost set of notified-and-unreleased ids from the events and checks at most one notification between PUBRELs, that suppressed retransmissions are answered with PUBREC, and that no validated QoS2 PUBLISH is swallowed.'


SPEC = S()


def run(tier, seed, t0):
    return D.run(SPEC, tier, seed, t0)


def replay(path):
    return D.do_replay(SPEC, path)
