#!/usr/bin/env python3
"""Regenerates MANIFEST.json from the table below (kept in one place so the manifest stays valid)."""
import json, os
HERE = os.path.dirname(os.path.abspath(__file__))
ALL = ["C%02d" % i for i in range(1, 21)]

NOTE_COMMON = ("Trusted: Coq 8.16.1 kernel + vm_compute; hand-written Gallina model (nothing is verified directly on the Rust); "
               "model-vs-code agreement is a sampled differential correspondence (plus exhaustive tables where stated), i.e. tested, not proved; "
               "no axioms (Print Assumptions re-read every run).")

CONN_NOTE = (NOTE_COMMON + " Connection model: packets are seen through a view (the fields core.rs reads); the parser's verdict on each received "
             "frame is an oracle input of the model (supplied by the harness from the real parser). The model agrees with GenericConnection on the FULL "
             "state digest, events and return values on every sampled history (C05's projection); each property compares its own projection.")

CHECKS = {
 "C08": dict(
  text="Coq theorems, Closed under the global context, for every state whose id allocator satisfies the representation invariant that C20 "
       "proves is maintained: acquire returns the LEAST free id (not in use before, in use after, nothing else touched, no event) and reports "
       "exhaustion only when no id in 1..max is free; register succeeds exactly for a free in-range id; release is total for every id value "
       "(0, out of range, free, in use) and announces the release exactly when it turns an in-use id free. OVER HISTORIES: "
       "C08_WFpid_invariant (every call keeps the allocator's representation invariant: every release the library performs is guarded by "
       "'is in use', except the release of stored packets dropped as oversize on resume, which that theorem's hypothesis excludes) and THE "
       "OWNERSHIP INVARIANT (C08_step_keeps_ownership, C08_ownership_invariant, by a walk through every function of the model): allocator "
       "well formed, identifiers of stored packets in use and pairwise distinct, every stored packet awaited in exactly the set of its kind, "
       "every identifier awaited in at most one of the five sets — kept by EVERY call (for an endpoint created with an undetermined version: "
       "C08_fresh_ownership_invariant_any_version, the store staying empty until the first CONNECT determines the version), whatever "
       "the peer sends, under the application's side of the contract (identifiers handed to send() are held by the application; "
       "release_packet_id is not called for a stored packet's identifier; restore_packets is given packets of this version with identifiers "
       "awaited nowhere); it yields the representation invariant ALSO across the oversize drop on resume. RELEASE ACCOUNTING FOR EVERY CALL "
       "(C08_step_accounts, C08_release_accounting: a walk through every function with its events): for every call other than acquire / "
       "register / restore_packets, the identifiers announced as released in the call are pairwise distinct, each was in use before, and "
       "afterwards exactly the announced ones have turned free; only a call that starts a new session (CONNECT with Clean Start sent or "
       "received, CONNACK that does not keep the session) may instead leave every identifier free — the wholesale reset. "
       "BETWEEN TWO ENDPOINTS: over any sequence of complete exchanges of any QoS mix, either side publishing, the identifiers in use on each "
       "side after the run are those in use before it (C08_sequences_leak_no_identifier, Conn/PairSeqMixedIds.v). "
       "PARTIAL (C08_partial): the no-leak-on-close clause as a statement about ownership ghosts is decided by "
       "the monitor (in-use set from the hook, ghost of application-held ids) on the implementation's traces, by the store stage (mon_c06: an accepted PUBLISH/PUBREL is sent or stored, so its identifier cannot leak) "
       "and by the allocator stage (C20's allocator correspondence and set-specification monitor on ValueAllocator traces whose range "
       "ends at the integer type's maximum: every id up to the maximum usable at once, exhaustion an error).",
  ref="DESIGN.md §3 C08",
  note=CONN_NOTE + " Ownership ghost: a success PUBREC that the library does not answer with PUBREL itself makes the application responsible for the id.",
  technique="Coq proofs of the id API on top of the C20 allocator refinement + ownership invariant over all histories (walker proof) + ownership-ghost monitor, store stage, allocator stage + differential correspondence"), "C05": dict(
  text="Coq theorems, Closed under the global context, for every state: after notify_closed the connection is Disconnected with an empty frame "
       "builder and a client's CONNECT is then accepted; every refused frame is reported by an error event, delivers nothing and keeps the "
       "session state. NO CALL OF THE MODEL PANICS, OVER ALL HISTORIES (C05_step_no_panic, C05_history_no_panic: walks through every function "
       "of the model): the model's Panic outcomes mark core.rs's unwrap / assert / unreachable sites (store.add().unwrap(), release of an "
       "identifier not in use, the topic-alias table assertions, assert!(val != 0) on received limits, 'protocol version should be set'); "
       "from every state with the ownership invariant, the alias-table bounds and a determined version, every call — whatever bytes the peer "
       "sends — returns normally and re-establishes them, under the application's side of the contract and what the parser guarantees about "
       "an accepted packet. PARTIAL (C05_partial): for the IMPLEMENTATION, 'no call panics / no wrap / finite events' is decided by running "
       "every call (and the getters read after it) under catch_unwind in a debug build (overflow checks, debug assertions) with the "
       "full-digest correspondence to the model and the monitor mon_c05 (panic, frame neither delivered nor answered nor reported, no "
       "progress); model functions are total by construction. Known finding F-05c is reported as KNOWN-FINDING; that it refutes 'every received frame is "
       "delivered, answered or reported' on the faithful model is itself a theorem (C05_every_frame_has_an_effect_refuted).",
  ref="DESIGN.md §3 C05, §4 F-05c",
  note=CONN_NOTE + " C05 compares the complete 34-field digest, all events, return values and panics.",
  technique="Coq proofs: per-step facts + no-panic invariant over all histories of the model (walker proofs on the ownership invariant) + catch_unwind monitor + full-state differential correspondence"), "C06": dict(
  text="Coq theorems, Closed under the global context, for every state: an acknowledgement (PUBACK/PUBREC/PUBCOMP) that matches nothing in flight "
       "is handled exactly as a protocol error, whose outcome erases no stored packet and frees no identifier; on v3.1.1 an accepted QoS>0 "
       "PUBLISH is requested for sending or is in the store; OVER ALL HISTORIES, both versions (C06_stored_until_released, by a walk through every "
       "function of the model): an identifier's store entry survives every call that is not a release point (matching acknowledgement, "
       "erase, oversize drop on resume, end of session, reuse of the id by a new PUBLISH), across persistent closes and resumes; on resume the "
       "call that processes/sends the CONNACK requests exactly the stored packets that fit, in store order, and nothing else; without Session "
       "Present the store is emptied. THE IDENTIFIER STAYS HELD (C06_history_keeps_ownership, C06_stored_identifier_held): the ownership "
       "invariant OWN (allocator well formed; stored identifiers in use and distinct; each stored packet awaited in the set of its kind; "
       "awaited sets disjoint) is kept by every call and history, whatever the peer sends, under the application's side of the contract, "
       "and the matching PUBACK/PUBREC/PUBCOMP erases exactly that packet; accepted-implies-sent-or-stored holds for v5.0 too "
       "(C06_accepted_sent_or_stored_v5). On the model side nothing is left to the monitor alone; the implementation is judged by mon_c06 "
       "(ghost store from operations/events vs exported store and in-flight sets; clause 1 covers PUBLISH and PUBREL, clause 28 restore) "
       "and tied to the model by the correspondence.",
  ref="DESIGN.md §3 C06",
  note=CONN_NOTE,
  technique="Coq per-step and history-invariant proofs + ghost-store monitor + differential correspondence"),
 "C07": dict(
  text="Coq theorems, Closed under the global context, for every state: on v3.1.1 a QoS 2 PUBLISH whose id is in the handled set is not notified "
       "and stays handled; on both versions a PUBREL removes the id from the handled set so the next PUBLISH is a new message; automatically "
       "generated acknowledgements notify nothing and leave the set alone; and over ALL histories of API calls of any length (both versions, "
       "persistent closes and session-keeping reconnects included): a handled id stays handled through every call that is not a release point "
       "(PUBREL for it, error PUBREC sent for it, clean-start CONNECT, CONNACK without session, non-persistent close, restore), so a v3.1.1 "
       "retransmission after any such history is not notified (C07_handled_until_released, by a walker over every function of the model). "
       "PER CALL, both versions, every state (Qos2Dup): a first QoS 2 PUBLISH is notified exactly once and becomes handled; a retransmission is "
       "not notified and, on an established connection, answered with PUBREC whether or not automatic responses are on. THE CONVERSE OVER "
       "HISTORIES (C07_not_handled_until_entered, Qos2Sub: a second walk through every function): an identifier enters the handled set only "
       "through a received packet that carries it or through restore, so after any history through which it could not enter a PUBLISH with "
       "it is notified — none is swallowed. On the model side nothing is left to the monitor alone; the implementation is judged by mon_c07 "
       "(ghost set of notified-and-unreleased ids from the events; a retransmission on an established connection must be answered with "
       "PUBREC whether or not automatic responses are on; restore_qos2_publish_handled REPLACES the set, at any point of a history) and the "
       "correspondence.",
  ref="DESIGN.md §3 C07",
  note=CONN_NOTE,
  technique="Coq per-step and history-invariant proofs + exactly-once ghost monitor + differential correspondence"),
 "C13": dict(
  text="Coq theorems, Closed under the global context, for every state: a received PUBLISH with an empty topic is delivered with exactly the "
       "topic bound to its alias on this connection, or rejected as Topic Alias invalid; both alias tables are dropped by notify_closed; "
       "what is stored for retransmission carries the full topic, no alias and DUP. SEND SIDE (C13_send_resolvable): against a ghost receiver "
       "table built only from the packets requested for sending, for every state whose send-side table is covered by it, every send(PUBLISH) "
       "— alias by the application, by automatic mapping incl. LRU eviction, by automatic replacement, stored or not, accepted or refused — "
       "requests at most one packet, which the receiver resolves to the topic the application asked for, with an alias in 1..=Topic Alias "
       "Maximum, and a binding enters the sender's table only with the packet that teaches it to the receiver; the table's insert_or_update "
       "keeps its representation invariant (both maps consistent) for every table; fresh / closed objects and new tables satisfy the cover. "
       "OVER HISTORIES (C13_every_history_resolvable, by a walk through every function of the model): every call keeps the cover and the "
       "shape of the store (stored PUBLISH: full topic, no alias) and requests only PUBLISH packets the receiver can resolve when they arrive, "
       "retransmissions included; the receiver's table is dropped with the sender's at notify_closed. THE PAIR (Conn/AliasPair.v): the library's "
       "receive-side table, fed the same packets in order, answers exactly like the ghost table (C13_receiver_implements_ghost, _stream), so "
       "between two library endpoints every requested PUBLISH is delivered with the topic the sending application asked for "
       "(C13_pair_alias_step; whole receive path: C13_deliver_qos{0,1,2}_with_alias). The implementation is judged by the "
       "monitor mon_c13 (independent receiver-side alias table replayed over the sent packets) and tied to the model by the correspondence.",
  ref="DESIGN.md §3 C13",
  note=CONN_NOTE,
  technique="Coq proofs (receive side; send side against a ghost receiver; alias-table invariant) + independent receiver-table monitor + differential correspondence"),
 "C14": dict(
  text="Coq theorems, Closed under the global context, for every state, limit and size: a v5.0 packet of any kind larger than the peer's Maximum "
       "Packet Size is never passed to the transport; an alias-rewritten publish is re-checked; everything retransmitted from the store fits "
       "and what does not fit is dropped; an inbound frame larger than the local maximum is never delivered and is reported as Packet too "
       "large (never panics); and THE statement over all send paths (C14_step_sends_fit, by a walk through every function of the model): "
       "for EVERY call of the API in every state — user sends, automatic responses, error DISCONNECTs, timer PINGREQ, CONNACK refusals, store "
       "retransmission, alias-rewritten publishes — every v5.0 packet requested for sending fits the limit in force when the call returns; "
       "lifted to all histories. The implementation is judged by the monitor mon_c14 (size <= limit for every ESend, release of dropped ids, "
       "DISCONNECT 0x95) and tied to the model by the correspondence. THE PAIR (Conn/PairLimits.v): after the v5.0 handshake, for every negotiated value, the limit one side enforces on sending is the limit the other announced and checks on receipt, for Maximum Packet Size and Receive Maximum alike (C14_limits_agree_after_handshake).",
  ref="DESIGN.md §3 C14",
  note=CONN_NOTE,
  technique="Coq proof for every call of the model (all send paths, all states, all histories) + size monitor + differential correspondence"),
 "C10": dict(
  text="Coq theorems, Closed under the global context. For EVERY state (hence every first history and close path): notify_closed resets the "
       "packet-size limits, alias tables, partial frame, pending subscribe/unsubscribe ids and all timers, ends a non-persistent session, and "
       "keeps only the options. Dead-at-connect: the outcome (state and events) of an accepted clean-start CONNECT, sent or received, depends "
       "on the options only - receive maxima, counters, alias tables, keep-alive values, is_client, store, in-flight sets, handled ids and "
       "identifiers in use of two objects may differ arbitrarily and the results are EQUAL; so a reused object equals a fresh one after the "
       "CONNECT and every script yields equal events and return values (determinism); the allocator bounds are proved invariant under EVERY call "
       "(walk through all functions of the model), so this holds after every history of a freshly constructed object with no hypothesis on the "
       "state. THE CONNACK PATH (ScopeConnack): a CONNECT without Clean Start leaves two objects that agree on scope and options equal up to "
       "the session, and the accepted CONNACK with Session Present = 0 then has EQUAL outcome on both — so a reused client told 'session not "
       "present' equals a fresh object, with equal traces for every later script. Outside the theorems: traffic between that CONNECT and its "
       "CONNACK (the old session is kept there by design). The implementation is judged by the paired-run monitor (reused vs fresh "
       "implementation object: events + full digest), the quota stage and the correspondence. THE PAIR (Conn/PairReconnect.v): whatever state two v5.0 endpoints are in, after notify_closed on both a Clean Start handshake establishes the two-way pair invariant as on a first connection and every schedule on the new connection ends with exactly-once delivery both ways (C10_reconnect_reestablishes_pair_invariant).",
  ref="DESIGN.md §3 C10",
  note=CONN_NOTE + " Paired cases: the application releases the ids it holds before reusing the object; offline publishing is configured between connections.",
  technique="Coq all-states state-equality proofs (dead-at-connect) + determinism + paired-run differential monitor on two implementation objects"),
 "C16": dict(
  text="Coq theorems, Closed under the global context: restore_packets on any object with a well-formed allocator, for every export with distinct "
       "free identifiers, appends exactly the export in order, takes exactly its identifiers, and makes each entry wait for exactly its "
       "acknowledgement; a fresh object given the export of a session satisfying the store invariant has a session state EQUAL to the "
       "original's (store, three in-flight sets, interval list of identifiers in use, handled ids), so the reconnect (CONNECT sent/received) "
       "has equal state and events on original-after-close and restored, and so has every continuation; restore is total, QoS0 and "
       "already-used identifiers are skipped; restore_packets keeps the ownership invariant OWN (see C08) on any object that has it "
       "(C16_restore_keeps_ownership) and every later call keeps it, so restored identifiers stay in use until their exchange completes. "
       "THE EXPORT OF A REACHABLE STATE IS THE SESSION (C16_history_session_invariant, C16_history_restore_equal): the structural "
       "invariant that the restore theorems assume follows from three invariants of every call — OWN, SUP (in a persistent session every "
       "awaited identifier has its packet in the store) and ENT (only QoS 1/2 PUBLISH and PUBREL are stored) — so in every state of every "
       "history of a fresh object in which the session is persistent and the application holds no identifier, the export restored into a "
       "fresh object rebuilds an EQUAL session state, and the reconnect and every continuation are equal on both; the ordered "
       "representation of the handled-identifier set is an invariant of every call as well (C16_handled_set_stays_ordered, identifiers "
       "handed in within 1..idmax), so C16_history_restore_equal_full carries no representation hypothesis. The implementation is "
       "judged by the paired-run monitor (original vs restored implementation object, events + full digest) and the store-order stage.",
  ref="DESIGN.md §3 C16",
  note=CONN_NOTE + " Paired cases use determinate versions (an export cannot be restored into an object of undetermined version).",
  technique="Coq proofs of restore (refinement to the set spec via C20) + state-equality/determinism + paired-run differential monitor on two implementation objects"),
 "C18": dict(
  text="Coq theorems, Closed under the global context. (1) Obligations over tables REGENERATED from the compiled crate on every run: on all 756 cells "
       "(14 locations x 27 identifiers x once/twice) the builder path and the parser path (bytes hand-encoded in the harness) both equal the "
       "specification table written from MQTT v5.0 Table 2-4; constructor and parser accept exactly the values the specification allows on "
       "the boundary values of every numeric property; none of the 229 unknown identifier bytes is accepted. (2) For property lists of ANY "
       "length: a list is correctly placed iff every property is allowed at the location and every non-repeatable one occurs at most once; only "
       "User Property (everywhere) and Subscription Identifier in PUBLISH repeat; value rules (non-zero Receive Maximum / Topic Alias / Maximum "
       "Packet Size / Subscription Identifier, flags 0/1) for every value. Tie for longer lists: seeded random lists through builder and parser "
       "vs the rule; monitor: builder and parser agree on every list.",
  ref="DESIGN.md §3 C18",
  note=NOTE_COMMON + " A broken table obligation is reported with the differing cells as the replay.",
  technique="Coq proof over exhaustively regenerated tables (T-exh) + list-level theorem + differential correspondence on random property lists"),
 "C02": dict(
  text="Coq theorems, Closed under the global context, about the reference codec (all 29 kinds, both versions, 16/32-bit identifiers, optional "
       "fields, any number of properties, every string/binary/payload length): decode(encode p) = p for every packet with packet_ok p (the "
       "decoder consumes exactly the body); the Remaining Length field equals the body length and the total size is 1 + its size + body; "
       "Variable Byte Integer round trip for every value <= 268 435 455 by arithmetic; properties and strings round trip. Tie every run: the "
       "builders accept exactly packet_ok and produce exactly `encode`; the monitor checks on the implementation size() = serialised length = "
       "concatenated to_buffers(), re-parse to an equal packet consuming the body, Remaining Length on the wire.",
  ref="DESIGN.md §3 C02, §4 F-25",
  note=NOTE_COMMON + " The theorems are about the hand-written reference codec; the library is tied to it by the sampled correspondence only.",
  technique="Coq round-trip proof of a reference codec (combinator lemmas, induction on lists) + differential correspondence with the builders/parsers"),
 "C03": dict(
  text="The reference codec Packet/*.v is the independently written encoder/decoder (from the OASIS documents; no shared code or constants). Coq "
       "theorems, Closed under the global context: the compiled constants equal the specification's - 11 reason/return code enums on all 256 "
       "byte values and the 15 fixed-header bytes (regenerated every run); the reference codec reads back what it writes (all kinds); its VBI "
       "decoder accepts only the minimal encoding. Decided on the implementation by the monitor: for every generated abstract packet the "
       "library's bytes ARE the reference encoding, the reference decoder reads them back, the library re-parses them to an equal packet and "
       "its accessors report the generated field values.",
  ref="DESIGN.md §3 C03",
  note=NOTE_COMMON + " A symmetric error in the library (same wrong offset/constant in writer and reader) differs from the reference encoding and is reported with the packet as replay.",
  technique="independent reference codec in Coq (round-trip proved) + Coq obligations over regenerated constants + differential correspondence"),
 "C04": dict(
  text="Coq theorems, Closed under the global context, about the reference decoder (a total function on every byte list): whatever it accepts "
       "satisfies the builders' structural rules and re-parses to itself; ACCEPTED INPUT IS CANONICAL for all 29 kinds and every byte list: "
       "decode l = Some b implies encode b = l (no non-minimal length, no slack, no second encoding), likewise for property blocks, Variable "
       "Byte Integers and length-prefixed fields; no primitive decoder consumes more than it was given. PARTIAL (C04_partial): 'no parser of the library panics, over-reads or accepts an inconsistent packet' is decided on the "
       "implementation: every parser under catch_unwind on exhaustive short bodies, structured mutations of valid encodings of all 29 kinds and "
       "random bytes - consumed <= given, size() = length of the re-serialisation, re-parse equal, builder rules on the accessor values "
       "(monitor) - and by the correspondence with the reference decoder.",
  ref="DESIGN.md §3 C04",
  note=NOTE_COMMON + " Self-consistent leniencies of the library (reserved flag bits, trailing bytes, ...) are modelled as they are and listed in DESIGN.md.",
  technique="Coq proofs about a total reference decoder (canonicity of accepted integers/fields) + catch_unwind monitor on exhaustive and mutated inputs + differential correspondence"),
 "C01": dict(
  text="PARTIAL. Coq theorems (Closed under the global context) about the PAIR of models: (1) several exchanges in flight - two v3.1.1 "
       "endpoints with automatic responses, two FIFO links, ANY schedule of 'the application publishes a QoS 1/2 message' / 'the link hands "
       "the next packet to the receiver' / '... to the sender': no call panics or reports an error, every packet is answered as the protocol "
       "says, the pair invariant (packets in flight <-> awaited sets and handled set, identifiers in flight distinct, published = delivered "
       "++ PUBLISHes in flight) holds throughout, and after at most [measure] further rounds both links are empty and the messages "
       "notified are exactly the published ones, once each, in order (C01_pair_every_schedule_succeeds, C01_pair_concurrent_exactly_once: "
       "pair invariant + termination measure); (1a) BOTH DIRECTIONS AT ONCE - both sides publish, each link carries PUBLISH/PUBREL of one side "
       "and its acknowledgements of the other side's messages: the invariant twice, a simulation of the two-way system by the two one-way "
       "systems with frame lemmas (a receiver's step leaves its sender role alone and vice versa): every schedule succeeds and after the "
       "drain each application has been notified of exactly what the other side published (C01_pair_two_way_exactly_once); "
       "the same for v5.0 with Receive Maximum and Maximum Packet Size negotiated in both directions, where after the drain both accounts "
       "are back to full and neither side holds an outstanding entry (C01_pair_two_way_v5_exactly_once, Conn/PairBi5.v); "
       "(1h) THE v5.0 HANDSHAKE, for every negotiated Receive Maximum / Maximum Packet Size / Session Expiry / Server Keep Alive (Clean Start, no "
       "Topic Alias Maximum), establishes the two-way pair invariant with each side's limits equal to what the other announced "
       "(C01_pair_v5_handshake_establishes_invariant), hence END TO END: two freshly constructed v5.0 endpoints, any such handshake, then any "
       "schedule of publications by either side and deliveries - nothing fails, exactly-once delivery both ways, both accounts full "
       "again (C01_fresh_v5_endpoints_interoperate, Conn/PairHandshake5.v); the same for v3.1.1 (C01_fresh_v311_endpoints_interoperate); and with the PERSISTENT handshake the lossy invariant: from fresh objects "
       "any schedule of publications, deliveries and transport losses succeeds with QoS 2 exactly once and QoS 1 at least once "
       "(C01_fresh_endpoints_interoperate_across_loss, and _server_publishes for the other direction, Conn/PairHandshakeP.v); "
       "(1i) AT QUIESCENCE EVERY PACKET IDENTIFIER IS RELEASED: the layered invariant 'every identifier in use belongs to a packet in flight' is kept "
       "by every action, so after any schedule and the drain no identifier is in use at the sender (C01_pair_all_identifiers_released, and "
       "end to end from fresh objects C01_fresh_v311_all_identifiers_released, Conn/PairConcIds.v; for v5.0 the complete quiescent state "
       "C01_pair_quiescence_v5, Conn/PairConcIds5.v; both directions C01_pair_two_way_all_identifiers_released / C01_pair_two_way_v5_quiescence; "
       "and the whole quiescence clause end to end from fresh v5.0 objects: C01_fresh_v5_complete_quiescence and C01_fresh_v311_complete_quiescence, Conn/PairQuiescence.v; across transport losses: store empty and no "
       "identifier in use, C01_pair_lossy_all_identifiers_released / C01_pair_server_publishes_all_identifiers_released / "
       "C01_fresh_endpoints_complete_quiescence_across_loss, Conn/PairLossIds.v, PairLossSIds.v); "
       "(1m) MANUAL RESPONSES: with auto_pub_response off on both endpoints the library requests nothing itself, "
       "each acknowledgement the application sends goes through send() to the same code, and QoS 1 / QoS 2 exchanges complete from every "
       "admissible pair of states (C01_pair_qos1_completes_manual, C01_pair_qos2_completes_manual, Conn/PairManual.v), and for v5.0 with the "
       "receiver's Receive Maximum slot held until its application acknowledges (C01_pair_qos{1,2}_completes_manual_v5, Conn/PairManual5.v); "
       "any SEQUENCE of exchanges with the two applications in the loop, identifiers reused, both versions (C01_pair_sequence_exactly_once_manual, "
       "C01_pair_sequence_exactly_once_manual_v5, Conn/PairManualSeq.v, PairManualSeq5.v); "
       "(1q0) QoS 0 INSIDE SEQUENCES, BOTH SIDES PUBLISHING: any sequence of messages of any mix of QoS 0 / 1 / 2 (v3.1.1) is notified exactly "
       "once each, in order; a QoS 0 step has no application precondition and leaves allocator, store, awaited sets and handled sets of both "
       "endpoints as they were (C01_pair_mixed_sequence_exactly_once, C01_pair_mixed_step, C01_pair_qos0_sequence_leaves_nothing, "
       "Conn/PairSeqMixed.v); with either side publishing each item, the invariant holding in both directions "
       "(C01_two_way_mixed_sequence_exactly_once, C01_two_way_qos0_sequence_completes, Conn/PairSeqMixed2.v); both end to end from fresh "
       "objects through the handshake (C01_fresh_v311_mixed_sequence, C01_fresh_v311_two_way_mixed_sequence); "
       "the v5.0 mixed sequence - a QoS 0 publication takes no Receive Maximum slot and its only precondition is the peer's Maximum Packet "
       "Size; both accounts at zero again afterwards (C01_pair_mixed_sequence_exactly_once_v5, C01_pair_qos0_step_v5, Conn/PairSeqMixed5.v); "
       "v5.0 with either side publishing each item, all four accounts at zero after every exchange, and end to end from fresh v5.0 objects "
       "(C01_two_way_mixed_sequence_exactly_once_v5, C01_fresh_v5_two_way_mixed_sequence, Conn/PairSeqMixed25.v, PairSeqMixedFresh5.v); "
       "the same with manual responses, both versions (C01_pair_mixed_sequence_exactly_once_manual, ..._manual_v5, C01_qos0_step_any_endpoints, "
       "Conn/PairSeqMixedM.v); "
       "and the identifiers: after any two-way mixed sequence the identifiers in use on both sides are the ones in use before - none when none "
       "was (C01_two_way_mixed_sequence_identifiers_unchanged, C01_two_way_mixed_sequence_quiescent, Conn/PairSeqMixedIds.v); "
       "(1v5) v5.0 WITH SEVERAL EXCHANGES IN FLIGHT: the invariant adds the Receive Maximum accounts (sender's count = exchanges in "
       "flight <= the peer's limit; receiver's outstanding set = its handled set), the quota is never exceeded, and after the drain the "
       "vacancy is the full maximum (C01_pair_concurrent_exactly_once_v5); (1b) THE SAME ACROSS TRANSPORT LOSS - persistent sessions, one more action 'the transport "
       "is lost, both sides are told, the client reconnects without Clean Session, the server answers Session Present, the client "
       "retransmits its store': for every schedule of publications, deliveries and losses no call panics or reports an error, every "
       "resumption succeeds, the extended pair invariant holds again and the links drain in at most [measure] rounds once losses stop "
       "(C01_pair_lossy_schedule_succeeds, C01_pair_lossy_schedule_drains), and QoS 2 IS EXACTLY ONCE ACROSS LOSS: after the drain the "
       "QoS 2 messages notified are exactly the QoS 2 messages published, once each, in order, up to the DUP flag of retransmissions "
       "(C01_pair_qos2_exactly_once_across_loss) and QoS 1 AT LEAST ONCE: every published QoS 1 message has been notified and nothing is "
       "stored any more (C01_pair_qos1_at_least_once_across_loss); the same with the server publishing to the client "
       "(C01_pair_server_to_client_across_loss); (2) any sequence of exchanges with identifier reuse, v3.1.1 and v5.0, the v5.0 Receive "
       "Maximum accounts back at zero after each (C01_pair_sequence_exactly_once, ..._v5); (3) single QoS 0/1/2 exchanges from every admissible "
       "pair of states, both versions (C01_pair_qos1_completes, ...), all tied to step by C01_send_call_is_send_publish / "
       "C01_recv_call_is_deliver (..._v5); (4) the per-endpoint facts: fragmentation independence (C09), a transport loss leaves nothing of the "
       "cut connection behind and keeps a persistent session (C10), unmatched acknowledgements are protocol errors (C06). NOT proved "
       "(C01_partial): losses with traffic in both directions at once, a loss in the middle of the resumption handshake or of a frame, manual responses, v5.0 topic aliases, v5.0 with "
       "losses. Those, and the tie to the code, are decided on pairs of REAL objects: a Client and a Server GenericConnection "
       "wired by two byte queues under seeded workloads from both sides, arbitrary delivery interleaving and fragmentation, and transport "
       "losses at arbitrary points (incl. mid-frame) with persistent-session resumption; the monitor requires no panic and no error event on "
       "either side, that the exchange comes to rest, QoS2 exactly once / QoS1 at least once (exactly once without loss) / QoS0 at most once "
       "with the original topic and payload, and at rest all identifiers free, stores empty, full vacancy on both sides; both objects are tied "
       "to the model by the full-digest correspondence.",
  ref="DESIGN.md §3 C01, §10.3",
  note=CONN_NOTE + " C01 replays re-run the seeded scheduler of the case on the current implementation (no shrinking).",
  technique="Coq pair theorems (pair invariant + termination measure over arbitrary schedules, with and without transport losses; sequences; single exchanges) + system-level monitor on pairs of implementation objects with losses + full-digest correspondence with the Coq model"),
 "C12": dict(
  text="Coq theorems, Closed under the global context, for every state and every M: the vacancy getter is M minus the counter saturating at "
       "zero (never wraps or panics); a QoS>0 PUBLISH arriving when the peer already has the announced maximum outstanding is answered "
       "with 'Receive Maximum exceeded' (DISCONNECT 0x93 + close when established) and not delivered, and accepted ones keep the "
       "outstanding set within the maximum; a refusal at the limit sends nothing and leaves the counter untouched. PARTIAL (C12_partial): "
       "the invariant 'counter = number of incomplete outbound exchanges of this connection incl. retransmitted ones' over all histories "
       "is decided by the monitor (ghost set of open exchanges from operations/events vs the implementation's counter and vacancy) and "
       "the correspondence; as a statement about ALL histories it is FALSE of the faithful model and of the code, and its refutation is "
       "proved, and so are, BETWEEN TWO LIBRARY ENDPOINTS, 'the counter is the number of exchanges in flight, never above the peer's "
       "Receive Maximum, no step is Receive Maximum exceeded, and the vacancy returns to M' for every schedule with several exchanges in "
       "flight (C12_counter_is_exchanges_in_flight; with both sides publishing at once C12_two_way_counters) and for every sequential run (C12_vacancy_returns_after_sequence; with manual responses C12_vacancy_returns_after_manual_sequence; with QoS 0 publications in between, which take no slot on either side: C12_qos0_takes_no_slot, C12_vacancy_returns_after_mixed_sequence, Conn/PairSeqMixed5.v; either side publishing, all four accounts: C12_four_accounts_return_after_two_way_mixed_sequence, Conn/PairSeqMixed25.v) (C12_count_exact_refuted_*: three histories of a fresh object inside the application contract after which the vacancy is the "
       "full maximum while a stored, accepted PUBLISH of this connection is still awaited) - these are the known findings F-12b, F-12c, "
       "F-12d, reported as KNOWN-FINDING; any other discrepancy is a violation.",
  ref="DESIGN.md §3 C12, §4 F-12b, §10.4 F-12c F-12d",
  note=CONN_NOTE,
  technique="Coq per-step proofs + ghost-multiset monitor + differential correspondence"),
 "C15": dict(
  text="Coq theorems, Closed under the global context, for EVERY state and API call of the connection model and every history: replaying "
       "the timer reset/cancel requests of the returned events over the connection's timer flags (after clearing the flag of an expired timer) "
       "yields exactly the flags afterwards and never meets a cancel for an unarmed timer; after notify_closed and after a DISCONNECT is "
       "requested for sending no timer is armed; the PINGREQ interval is chosen by priority (override, Server Keep Alive, CONNECT keep-alive; "
       "0 disables); a server's receive timeout is 1.5 x the keep-alive of the CONNECT just received and the timer is never armed for 0. "
       "Re-arm after EVERY send (C15_step_rearms, by a walk through every function of the model): in the events of every call, after the last "
       "packet requested for sending the PINGREQ-send timer is reset with the interval of the returned state, unless the call requests a close, "
       "the object is not a client or the interval is 0. EXPIRY EFFECTS, every state (Expiry): the PINGREQ-send timer requests a PINGREQ and arms "
       "the PINGRESP timer with the configured timeout; the PINGREQ-receive / PINGRESP-receive timers give the connection up (v3.1.1: exactly "
       "a close request; v5.0: DISCONNECT Keep Alive timeout if it fits, close, Disconnected). SERVER-SIDE RE-ARM: every notified packet of "
       "every kind but CONNACK, PINGRESP and DISCONNECT resets the PINGREQ-receive timer with the timeout in force. THE PAIR (Conn/PairPing.v): "
       "one keep-alive round between a client and a server endpoint - timer expiry, PINGREQ, automatic PINGRESP and watchdog re-arm, response "
       "timer cancelled - with no error and no close request (C15_keep_alive_round). On the model side nothing "
       "is left to the monitor alone; the implementation is judged by the observer monitor and tied by the correspondence.",
  ref="DESIGN.md §3 C15",
  note=CONN_NOTE + " The observer of the monitor is built only from events and reported expiries; the flag comparison uses the hook.",
  technique="Coq all-states proofs: timer events track the flags, re-arm after every send (walker proofs over all functions), expiry effects, server-side re-arm + observer monitor + differential correspondence"),
 "C17": dict(
  text="Coq theorems, Closed under the global context, for EVERY state of the connection model: a frame of a kind the MQTT rule table never lets "
       "the peer of this role send yields exactly one error event and leaves the state unchanged; a CONNECT or CONNACK frame on an established "
       "connection is a protocol error that delivers nothing and leaves the session state equal; an undetermined server rejects every first "
       "frame other than a CONNECT of level 4/5 without changing state, and after a good CONNECT its state and events are EQUAL to those of a "
       "server created with that version, hence equal events for every continuation of any length (determinism). THE PAIR (Conn/GateDual.v): "
       "the receive gate is dual to the send gate - whatever a client-role endpoint passes to the transport a server- or any-role endpoint of "
       "the same version lets through its receive gate and vice versa (C17_sent_passes_peer_gate, C17_rule_is_can_receive). Tie: exhaustive 460-cell "
       "receive matrix + random histories through the projection correspondence and a monitor using only the rule table and the framing model.",
  ref="DESIGN.md §3 C17",
  note=CONN_NOTE + " A CONNACK while Disconnected (no CONNECT sent) is accepted by the library by design of its tests; the property speaks of an established connection and so do the theorems.",
  technique="Coq all-states proofs against an independent rule table + state-equality/determinism argument + exhaustive matrix correspondence"),
 "C11": dict(
  text="Coq theorems, Closed under the global context, for EVERY state, role, version and well-formed packet view of the connection model: "
       "(gate_sound) if the MQTT rule table (role x version x connection state; written independently in Spec/MqttRules.v) forbids the packet, "
       "nothing is passed to the transport; (refused_is_noop) outside the stated store exception the result is only error events plus the "
       "release of the packet's id and the state EQUALS the previous state up to that release; plus a Coq obligation, regenerated from the "
       "compiled crate on every run, that the compile-time Sendable table (87 cells, rustc trait resolution) equals the same rule table. Tie: "
       "the exhaustive 3248-cell matrix (all reachable role x version x status x 29 kinds x persistent/offline cells) and random histories, "
       "judged by the projection correspondence and by a monitor that uses only the rule table.",
  ref="DESIGN.md §3 C11",
  note=CONN_NOTE + " checked_send is compared through its type table only (it dispatches to the same process_send_* functions).",
  technique="Coq all-states proof against an independent rule table + Coq obligation over a table regenerated from rustc + exhaustive matrix correspondence"),
 "C19": dict(
  text="Coq theorems, Closed under the global context, for EVERY state (reachable or not), configuration and API call of the connection model "
       "and hence every event list of every history of any length: no send request follows a close request; every DISCONNECT and every failing "
       "CONNACK requested for sending is followed by a close request in the same list; a keep-alive timeout on an established connection always "
       "requests close. The executable predicate close_ordered of the theorem is also the monitor evaluated on every event list the "
       "implementation returns. Tie: projection (send/close events) of the connection correspondence.",
  ref="DESIGN.md §3 C19",
  note=CONN_NOTE,
  technique="Coq per-step proof over all states (compositional: benign/closing event lists) + monitor + differential correspondence"),
 "C09": dict(
  text="Coq theorems (Closed under the global context) about the model of PacketBuilder::feed, for every byte stream and EVERY partition "
       "into receive buffers, of any length: drain_chunks = drain of the concatenation (same results, same order, same final state); those "
       "results are exactly the frames of an independent declarative reading of the stream; one call returns at most one frame, never reads "
       "past its buffer and always makes progress; bytes are conserved (none lost, duplicated, reordered); a five-byte Remaining Length is an "
       "error after which framing resumes at the next byte. Tie: per-call differential correspondence on PacketBuilder::feed (result, body, "
       "cursor advance) incl. every single split point of short streams, plus a monitor comparing the implementation's results under any "
       "chunking with the declarative specification. Connection level: Connection::recv inside connection histories (split/merged buffers, "
       "garbage, over-long Remaining Length) - the monitor runs the proved framing model on the builder state and the buffer and requires the "
       "reported unread count, silence on incomplete frames and the kept partial frame to agree; builder state, events and unread count are "
       "compared with the connection model.",
  ref="DESIGN.md §3 C09, §2.3",
  note=NOTE_COMMON + " Connection::recv is one feed() call followed by packet processing; the lift of chunking independence to connection events is stated in the connection layer.",
  technique="Coq proof of chunking independence (feed_app/drain_app by induction) + refinement to a declarative frame spec + differential correspondence"),
 "C20": dict(
  text="Coq theorems (C20_alloc_refines_set and six companions, Closed under the global context): for every range, every integer width and "
       "every contract-respecting operation sequence of any length, the interval-list model of ValueAllocator never panics or overflows, "
       "answers exactly like the plain set of free integers (smallest first), and its pool is the unique sorted/disjoint/maximally-merged "
       "representation of that set. Tie: differential correspondence on every run - answers and the hook-exported interval list after every op.",
  ref="DESIGN.md §3 C20, §1.3",
  note=NOTE_COMMON + " BTreeSet with the overlap-is-Equal comparator is modelled as sorted-list insert/remove.",
  technique="Coq refinement proof (interval list -> set of free integers) + differential correspondence with representation hook"),
}

UNDER_CONSTRUCTION = "not claimed yet: model/theorems under construction in this development (DESIGN.md §8 staging); will be claimed once its theorem and correspondence run through ./check"

def main():
    hooks = json.load(open(os.path.join(HERE, "hooks.json")))
    checks = []
    for pid in ALL:
        if pid in CHECKS:
            c = CHECKS[pid]
            checks.append(dict(
                property_id=pid, quick_cmd="./check %s --tier quick" % pid, thorough_cmd="./check %s --tier thorough" % pid,
                evidence_file="evidence/%s.json" % pid, replay_cmd_template="./check %s --replay {path}" % pid,
                engine="coq-model",
                level_claimed=dict(category="proof", text=c["text"], design_ref=c["ref"]),
                level_note=c["note"], technique=c["technique"]))
    claimed = sorted(CHECKS)
    m = dict(
        version=1, setup_cmd="cd /verif && ./setup.sh",
        hooks=dict(guard="cfg(mqtt_protocol_core_verif)",
                   enable="RUSTFLAGS=\"--cfg mqtt_protocol_core_verif\" (set in /verif/harness/.cargo/config.toml; the harness crate depends on /repo by path)",
                   baseline_off_cmd="cd /repo && (cargo nextest run --workspace --no-fail-fast --test-threads 8 --offline || cargo test --workspace --no-fail-fast --offline)",
                   source_commits=hooks["source_commits"], add_only=True),
        engines=[
            dict(name="coq-model", path="coq/", serves_properties=claimed, kind_free_text="hand-written Gallina model + theorems (Coq 8.16.1), full .vo build"),
            dict(name="harness", path="harness/", serves_properties=claimed, kind_free_text="Rust crate linking /repo's working tree with hooks on: generates cases, runs the implementation under catch_unwind, prints inputs+observations as numbers"),
            dict(name="checker", path="coq/extracted/", serves_properties=claimed, kind_free_text="the model's executable correspondence checkers and monitors extracted to OCaml (ExtrOcamlBasic only), cross-checked against in-Coq vm_compute each run"),
        ],
        checks=checks,
        not_applicable=[dict(property_id=p, reason=UNDER_CONSTRUCTION) for p in ALL if p not in CHECKS],
        notes="Every check: exit 0 / exit 1 + VIOLATION line / exit 2 = infrastructure error. known_findings.json is read-only at run time.")
    json.dump(m, open(os.path.join(HERE, "MANIFEST.json"), "w"), indent=1)
    print("MANIFEST.json written: %d checks, %d not_applicable" % (len(checks), len(m["not_applicable"])))

if __name__ == "__main__":
    main()
