// Included twice (Pid = u16 and Pid = u32) by conn.rs.
// T-diff driver for GenericConnection: a seeded generator produces contract-respecting local
// calls mixed with arbitrary peer traffic; every call runs under catch_unwind; after every call
// the events, the return value and the full state digest (hook) are recorded as numbers.

use crate::rng::Rng;
use mqtt_protocol_core::mqtt;
use mqtt::common::Cursor;
use mqtt::connection::{GenericConnection, GenericEvent, PacketBuildResult, PacketBuilder, TimerKind};
use mqtt::packet::{v3_1_1, v5_0, GenericPacket, GenericPacketTrait, GenericStorePacket, PropertiesSize, Property, Qos, SubEntry, SubOpts};
use mqtt::result_code::*;
use mqtt::Version;
use std::panic::{catch_unwind, AssertUnwindSafe};

pub type Packet = GenericPacket<Pid>;
pub type Conn<R> = GenericConnection<R, Pid>;

pub const IDW: u64 = std::mem::size_of::<Pid>() as u64;
pub const IDMAX: u64 = Pid::MAX as u64;

fn push_bytes(v: &mut Vec<u64>, b: &[u8]) {
    v.push(b.len() as u64);
    v.extend(b.iter().map(|x| *x as u64));
}

/// packet from its serialisation (used by replay): fixed header, remaining length, body
pub fn packet_from_bytes(ver: u64, b: &[u8]) -> Option<Packet> {
    if b.len() < 2 {
        return None;
    }
    let mut i = 1;
    while i < b.len() && i < 5 && b[i] & 0x80 != 0 {
        i += 1;
    }
    i += 1;
    if i > b.len() {
        return None;
    }
    parse_frame(ver, b[0], &b[i..]).ok()
}

fn skip_view(t: &[u64], mut i: usize) -> usize {
    i += 6;
    let nt = t[i] as usize;
    i += 1 + nt;
    i += 2 + 7 + 10;
    i
}

/// decode the op tokens of a recorded case (replay); returns the ops
pub fn ops_from_tokens(groups: &[Vec<u64>]) -> Vec<Op> {
    let mut out = Vec::new();
    for t in groups {
        if t.is_empty() {
            continue;
        }
        let tag = t[0];
        let bytes_after_view = |start: usize| -> (u64, Vec<u8>, usize) {
            let ver = t[start + 1];
            let j = skip_view(t, start);
            let n = t[j] as usize;
            (ver, t[j + 1..j + 1 + n].iter().map(|x| *x as u8).collect(), j + 1 + n)
        };
        match tag {
            0 | 17 | 18 => {
                let (ver, b, _) = bytes_after_view(1);
                if let Some(p) = packet_from_bytes(ver, &b) {
                    out.push(if tag == 0 { Op::Send(p) } else if tag == 18 { Op::CheckedSend(p) } else { Op::Regulate(p) });
                }
            }
            1 => {
                let n = t[1] as usize;
                out.push(Op::Recv(t[2..2 + n].iter().map(|x| *x as u8).collect()));
            }
            2 => out.push(Op::Timer(t[1])),
            3 => out.push(Op::Closed),
            4 => out.push(Op::SetPingreqInterval(if t[1] != 0 { Some(t[2]) } else { None })),
            5 => out.push(Op::SetPingrespTimeout(t[1])),
            6..=10 => out.push(Op::SetFlag(tag, t[1] != 0)),
            11 => out.push(Op::Acquire),
            12 => out.push(Op::Register(t[1])),
            13 => out.push(Op::Release(t[1])),
            14 => out.push(Op::Erase(t[1])),
            15 => {
                let n = t[1] as usize;
                let mut i = 2;
                let mut l = Vec::new();
                for _ in 0..n {
                    let (ver, b, j) = bytes_after_view(i);
                    i = j;
                    if let Some(p) = packet_from_bytes(ver, &b) {
                        match p {
                            GenericPacket::V3_1_1Publish(x) => l.push(GenericStorePacket::V3_1_1Publish(x)),
                            GenericPacket::V5_0Publish(x) => l.push(GenericStorePacket::V5_0Publish(x)),
                            GenericPacket::V3_1_1Pubrel(x) => l.push(GenericStorePacket::V3_1_1Pubrel(x)),
                            GenericPacket::V5_0Pubrel(x) => l.push(GenericStorePacket::V5_0Pubrel(x)),
                            _ => {}
                        }
                    }
                }
                out.push(Op::RestorePackets(l));
            }
            16 => {
                let n = t[1] as usize;
                out.push(Op::RestoreQos2(t[2..2 + n].to_vec()));
            }
            _ => {}
        }
    }
    out
}

fn push_opt(v: &mut Vec<u64>, o: Option<u64>) {
    match o {
        Some(x) => {
            v.push(1);
            v.push(x)
        }
        None => {
            v.push(0);
            v.push(0)
        }
    }
}

#[derive(Default, Clone)]
pub struct View {
    pub ty: u64,
    pub ver: u64,
    pub pid: u64,
    pub qos: u64,
    pub dup: bool,
    pub retain: bool,
    pub topic: Vec<u8>,
    pub alias: Option<u64>,
    pub plen: u64,
    pub paylen: u64,
    pub size: u64,
    pub rc_present: bool,
    pub rc: u64,
    pub flag: bool,
    pub keep_alive: u64,
    pub tam: Option<u64>,
    pub rm: Option<u64>,
    pub mps: Option<u64>,
    pub sei: Option<u64>,
    pub ska: Option<u64>,
}

impl View {
    pub fn enc(&self, v: &mut Vec<u64>) {
        v.extend_from_slice(&[self.ty, self.ver, self.pid, self.qos, self.dup as u64, self.retain as u64, self.topic.len() as u64]);
        v.extend(self.topic.iter().map(|b| *b as u64));
        push_opt(v, self.alias);
        v.extend_from_slice(&[self.plen, self.paylen, self.size, self.rc_present as u64, self.rc, self.flag as u64, self.keep_alive]);
        push_opt(v, self.tam);
        push_opt(v, self.rm);
        push_opt(v, self.mps);
        push_opt(v, self.sei);
        push_opt(v, self.ska);
    }
}

fn props_into(view: &mut View, props: &[Property]) {
    for p in props {
        match p {
            Property::TopicAlias(x) => view.alias = Some(x.val() as u64),
            Property::TopicAliasMaximum(x) => view.tam = Some(x.val() as u64),
            Property::ReceiveMaximum(x) => view.rm = Some(x.val() as u64),
            Property::MaximumPacketSize(x) => view.mps = Some(x.val() as u64),
            Property::SessionExpiryInterval(x) => view.sei = Some(x.val() as u64),
            Property::ServerKeepAlive(x) => view.ska = Some(x.val() as u64),
            _ => {}
        }
    }
}

pub fn view(p: &Packet) -> View {
    let mut w = View::default();
    w.size = p.size() as u64;
    match p {
        GenericPacket::V3_1_1Connect(x) => {
            w.ty = 1;
            w.ver = 4;
            w.flag = x.clean_session();
            w.keep_alive = x.keep_alive() as u64;
        }
        GenericPacket::V5_0Connect(x) => {
            w.ty = 1;
            w.ver = 5;
            w.flag = x.clean_start();
            w.keep_alive = x.keep_alive() as u64;
            props_into(&mut w, x.props());
        }
        GenericPacket::V3_1_1Connack(x) => {
            w.ty = 2;
            w.ver = 4;
            w.flag = x.session_present();
            w.rc_present = true;
            w.rc = x.return_code() as u8 as u64;
        }
        GenericPacket::V5_0Connack(x) => {
            w.ty = 2;
            w.ver = 5;
            w.flag = x.session_present();
            w.rc_present = true;
            w.rc = x.reason_code() as u8 as u64;
            props_into(&mut w, x.props());
        }
        GenericPacket::V3_1_1Publish(x) => {
            w.ty = 3;
            w.ver = 4;
            w.pid = x.packet_id().map(|i| i as u64).unwrap_or(0);
            w.qos = x.qos() as u8 as u64;
            w.dup = x.dup();
            w.retain = x.retain();
            w.topic = x.topic_name().as_bytes().to_vec();
            w.paylen = x.payload().len() as u64;
        }
        GenericPacket::V5_0Publish(x) => {
            w.ty = 3;
            w.ver = 5;
            w.pid = x.packet_id().map(|i| i as u64).unwrap_or(0);
            w.qos = x.qos() as u8 as u64;
            w.dup = x.dup();
            w.retain = x.retain();
            w.topic = x.topic_name().as_bytes().to_vec();
            w.paylen = x.payload().len() as u64;
            w.plen = x.props().size() as u64;
            props_into(&mut w, x.props());
        }
        GenericPacket::V3_1_1Puback(x) => {
            w.ty = 4;
            w.ver = 4;
            w.pid = x.packet_id() as u64;
        }
        GenericPacket::V3_1_1Pubrec(x) => {
            w.ty = 5;
            w.ver = 4;
            w.pid = x.packet_id() as u64;
        }
        GenericPacket::V3_1_1Pubrel(x) => {
            w.ty = 6;
            w.ver = 4;
            w.pid = x.packet_id() as u64;
        }
        GenericPacket::V3_1_1Pubcomp(x) => {
            w.ty = 7;
            w.ver = 4;
            w.pid = x.packet_id() as u64;
        }
        GenericPacket::V5_0Puback(x) => {
            w.ty = 4;
            w.ver = 5;
            w.pid = x.packet_id() as u64;
            if let Some(rc) = x.reason_code() {
                w.rc_present = true;
                w.rc = rc as u8 as u64;
            }
        }
        GenericPacket::V5_0Pubrec(x) => {
            w.ty = 5;
            w.ver = 5;
            w.pid = x.packet_id() as u64;
            if let Some(rc) = x.reason_code() {
                w.rc_present = true;
                w.rc = rc as u8 as u64;
            }
        }
        GenericPacket::V5_0Pubrel(x) => {
            w.ty = 6;
            w.ver = 5;
            w.pid = x.packet_id() as u64;
            if let Some(rc) = x.reason_code() {
                w.rc_present = true;
                w.rc = rc as u8 as u64;
            }
        }
        GenericPacket::V5_0Pubcomp(x) => {
            w.ty = 7;
            w.ver = 5;
            w.pid = x.packet_id() as u64;
            if let Some(rc) = x.reason_code() {
                w.rc_present = true;
                w.rc = rc as u8 as u64;
            }
        }
        GenericPacket::V3_1_1Subscribe(x) => {
            w.ty = 8;
            w.ver = 4;
            w.pid = x.packet_id() as u64;
        }
        GenericPacket::V5_0Subscribe(x) => {
            w.ty = 8;
            w.ver = 5;
            w.pid = x.packet_id() as u64;
        }
        GenericPacket::V3_1_1Suback(x) => {
            w.ty = 9;
            w.ver = 4;
            w.pid = x.packet_id() as u64;
        }
        GenericPacket::V5_0Suback(x) => {
            w.ty = 9;
            w.ver = 5;
            w.pid = x.packet_id() as u64;
        }
        GenericPacket::V3_1_1Unsubscribe(x) => {
            w.ty = 10;
            w.ver = 4;
            w.pid = x.packet_id() as u64;
        }
        GenericPacket::V5_0Unsubscribe(x) => {
            w.ty = 10;
            w.ver = 5;
            w.pid = x.packet_id() as u64;
        }
        GenericPacket::V3_1_1Unsuback(x) => {
            w.ty = 11;
            w.ver = 4;
            w.pid = x.packet_id() as u64;
        }
        GenericPacket::V5_0Unsuback(x) => {
            w.ty = 11;
            w.ver = 5;
            w.pid = x.packet_id() as u64;
        }
        GenericPacket::V3_1_1Pingreq(_) => {
            w.ty = 12;
            w.ver = 4;
        }
        GenericPacket::V5_0Pingreq(_) => {
            w.ty = 12;
            w.ver = 5;
        }
        GenericPacket::V3_1_1Pingresp(_) => {
            w.ty = 13;
            w.ver = 4;
        }
        GenericPacket::V5_0Pingresp(_) => {
            w.ty = 13;
            w.ver = 5;
        }
        GenericPacket::V3_1_1Disconnect(_) => {
            w.ty = 14;
            w.ver = 4;
        }
        GenericPacket::V5_0Disconnect(x) => {
            w.ty = 14;
            w.ver = 5;
            if let Some(rc) = x.reason_code() {
                w.rc_present = true;
                w.rc = rc as u8 as u64;
            }
        }
        GenericPacket::V5_0Auth(x) => {
            w.ty = 15;
            w.ver = 5;
            if let Some(rc) = x.reason_code() {
                w.rc_present = true;
                w.rc = rc as u8 as u64;
            }
        }
    }
    w
}

/// the parser the connection will use for a complete frame of protocol version `ver` (4 or 5)
pub fn parse_frame(ver: u64, fh: u8, body: &[u8]) -> Result<Packet, u16> {
    let t = fh >> 4;
    let flags = fh & 0x0f;
    macro_rules! p {
        ($e:expr) => {
            $e.map(|(x, _)| x.into()).map_err(|e| e as u16)
        };
    }
    let arc: mqtt::common::Arc<[u8]> = mqtt::common::Arc::from(body);
    if ver == 4 {
        match t {
            1 => p!(v3_1_1::Connect::parse(body)),
            2 => p!(v3_1_1::Connack::parse(body)),
            3 => p!(v3_1_1::GenericPublish::<Pid>::parse(flags, arc)),
            4 => p!(v3_1_1::GenericPuback::<Pid>::parse(body)),
            5 => p!(v3_1_1::GenericPubrec::<Pid>::parse(body)),
            6 => p!(v3_1_1::GenericPubrel::<Pid>::parse(body)),
            7 => p!(v3_1_1::GenericPubcomp::<Pid>::parse(body)),
            8 => p!(v3_1_1::GenericSubscribe::<Pid>::parse(body)),
            9 => p!(v3_1_1::GenericSuback::<Pid>::parse(body)),
            10 => p!(v3_1_1::GenericUnsubscribe::<Pid>::parse(body)),
            11 => p!(v3_1_1::GenericUnsuback::<Pid>::parse(body)),
            12 => p!(v3_1_1::Pingreq::parse(body)),
            13 => p!(v3_1_1::Pingresp::parse(body)),
            14 => p!(v3_1_1::Disconnect::parse(body)),
            _ => Err(0),
        }
    } else {
        match t {
            1 => p!(v5_0::Connect::parse(body)),
            2 => p!(v5_0::Connack::parse(body)),
            3 => p!(v5_0::GenericPublish::<Pid>::parse(flags, arc)),
            4 => p!(v5_0::GenericPuback::<Pid>::parse(body)),
            5 => p!(v5_0::GenericPubrec::<Pid>::parse(body)),
            6 => p!(v5_0::GenericPubrel::<Pid>::parse(body)),
            7 => p!(v5_0::GenericPubcomp::<Pid>::parse(body)),
            8 => p!(v5_0::GenericSubscribe::<Pid>::parse(body)),
            9 => p!(v5_0::GenericSuback::<Pid>::parse(body)),
            10 => p!(v5_0::GenericUnsubscribe::<Pid>::parse(body)),
            11 => p!(v5_0::GenericUnsuback::<Pid>::parse(body)),
            12 => p!(v5_0::Pingreq::parse(body)),
            13 => p!(v5_0::Pingresp::parse(body)),
            14 => p!(v5_0::Disconnect::parse(body)),
            15 => p!(v5_0::Auth::parse(body)),
            _ => Err(0),
        }
    }
}

fn timer_n(k: TimerKind) -> u64 {
    match k {
        TimerKind::PingreqSend => 0,
        TimerKind::PingreqRecv => 1,
        TimerKind::PingrespRecv => 2,
    }
}

/// consecutive release notifications come out of HashSet drains: order them (compared as sets)
fn canon_events(evs: &[GenericEvent<Pid>]) -> Vec<GenericEvent<Pid>> {
    let mut out: Vec<GenericEvent<Pid>> = Vec::new();
    let mut run: Vec<Pid> = Vec::new();
    for e in evs {
        if let GenericEvent::NotifyPacketIdReleased(id) = e {
            run.push(*id);
        } else {
            run.sort();
            out.extend(run.drain(..).map(GenericEvent::NotifyPacketIdReleased));
            out.push(e.clone());
        }
    }
    run.sort();
    out.extend(run.drain(..).map(GenericEvent::NotifyPacketIdReleased));
    out
}

pub fn enc_events(evs: &[GenericEvent<Pid>], v: &mut Vec<u64>) {
    let evs = &canon_events(evs)[..];
    v.push(evs.len() as u64);
    for e in evs {
        match e {
            GenericEvent::RequestSendPacket { packet, release_packet_id_if_send_error } => {
                v.push(0);
                // the size of a packet requested for sending is what goes on the wire, not what size() claims
                let mut w = view(packet);
                w.size = packet.to_continuous_buffer().len() as u64;
                w.enc(v);
                push_opt(v, release_packet_id_if_send_error.map(|x| x as u64));
            }
            GenericEvent::NotifyPacketReceived(p) => {
                v.push(1);
                view(p).enc(v);
            }
            GenericEvent::NotifyPacketIdReleased(id) => {
                v.push(2);
                v.push(*id as u64);
            }
            GenericEvent::RequestTimerReset { kind, duration_ms } => {
                v.push(3);
                v.push(timer_n(*kind));
                v.push(*duration_ms);
            }
            GenericEvent::RequestTimerCancel(kind) => {
                v.push(4);
                v.push(timer_n(*kind));
            }
            GenericEvent::NotifyError(e) => {
                v.push(5);
                v.push(*e as u16 as u64);
            }
            GenericEvent::RequestClose => v.push(6),
        }
    }
}

fn enc_set(v: &mut Vec<u64>, s: &[u64]) {
    v.push(s.len() as u64);
    v.extend_from_slice(s);
}
fn enc_str(v: &mut Vec<u64>, s: &str) {
    v.push(s.len() as u64);
    v.extend(s.as_bytes().iter().map(|b| *b as u64));
}

pub fn digest<R: mqtt::connection::role::RoleType>(c: &Conn<R>, v: &mut Vec<u64>) {
    let s = c.verif_state();
    v.push(match s.protocol_version {
        Version::V3_1_1 => 4,
        Version::V5_0 => 5,
        Version::Undetermined => 0,
    });
    v.push(s.pid_free.len() as u64);
    for (l, h) in &s.pid_free {
        v.push(*l);
        v.push(*h);
    }
    enc_set(v, &s.pid_suback);
    enc_set(v, &s.pid_unsuback);
    enc_set(v, &s.pid_puback);
    enc_set(v, &s.pid_pubrec);
    enc_set(v, &s.pid_pubcomp);
    v.push(s.need_store as u64);
    let stored = c.get_stored_packets();
    v.push(stored.len() as u64);
    for sp in &stored {
        let gp: Packet = sp.clone().into();
        view(&gp).enc(v);
    }
    v.extend_from_slice(&[
        s.offline_publish as u64,
        s.auto_pub_response as u64,
        s.auto_ping_response as u64,
        s.auto_map_topic_alias_send as u64,
        s.auto_replace_topic_alias_send as u64,
    ]);
    match &s.topic_alias_recv {
        None => v.push(0),
        Some((mx, m)) => {
            v.push(1);
            v.push(*mx as u64);
            v.push(m.len() as u64);
            for (a, t) in m {
                v.push(*a as u64);
                enc_str(v, t);
            }
        }
    }
    match &s.topic_alias_send {
        None => v.push(0),
        Some((mx, a2t, t2a, free)) => {
            v.push(1);
            v.push(*mx as u64);
            v.push(a2t.len() as u64);
            for (a, t) in a2t {
                v.push(*a as u64);
                enc_str(v, t);
            }
            v.push(t2a.len() as u64);
            for (t, al) in t2a {
                enc_str(v, t);
                v.push(al.len() as u64);
                v.extend(al.iter().map(|a| *a as u64));
            }
            v.push(free.len() as u64);
            for (l, h) in free {
                v.push(*l as u64);
                v.push(*h as u64);
            }
        }
    }
    push_opt(v, s.publish_send_max.map(|x| x as u64));
    push_opt(v, s.publish_recv_max.map(|x| x as u64));
    v.push(s.publish_send_count as u64);
    enc_set(v, &s.publish_recv);
    v.push(s.maximum_packet_size_send as u64);
    v.push(s.maximum_packet_size_recv as u64);
    v.push(s.status as u64);
    push_opt(v, s.pingreq_user_send_interval_ms);
    v.push(s.pingreq_keep_alive_ms);
    push_opt(v, s.pingreq_server_keep_alive_ms);
    v.push(s.pingreq_recv_timeout_ms);
    v.push(s.pingresp_recv_timeout_ms);
    enc_set(v, &s.qos2_publish_handled);
    v.extend_from_slice(&[s.pingreq_send_set as u64, s.pingreq_recv_set as u64, s.pingresp_recv_set as u64]);
    let (st, hdr, rem, buf) = &s.packet_builder;
    v.push(*st as u64);
    v.push(hdr.len() as u64);
    v.extend(hdr.iter().map(|b| *b as u64));
    v.push(*rem as u64);
    v.push(buf.len() as u64);
    v.extend(buf.iter().map(|b| *b as u64));
    v.push(s.is_client as u64);
    // public getters that the model derives from the state (checked against the digest by the checker)
    push_opt(v, c.get_receive_maximum_vacancy_for_send().map(|x| x as u64));
}

// ------------------------------------------------------------------------------------------
// packet construction for the generator

pub const TOPICS: [&str; 4] = ["a", "t/1", "t/22", "sensor/temperature/room-1"];

fn props_connect(rng: &mut Rng) -> Vec<Property> {
    let mut v = Vec::new();
    if rng.chance(1, 2) {
        v.push(mqtt::packet::ReceiveMaximum::new(*rng.pick(&[1u16, 2, 3, 65535])).unwrap().into());
    }
    if rng.chance(1, 2) {
        v.push(mqtt::packet::TopicAliasMaximum::new(*rng.pick(&[0u16, 1, 2, 3])).unwrap().into());
    }
    if rng.chance(1, 3) {
        v.push(mqtt::packet::MaximumPacketSize::new(*rng.pick(&[1u32, 2, 3, 4, 5, 12, 20, 30, 45, 200, 120, 124, 126, 127, 128, 129, 130, 131, 132, 134])).unwrap().into());
    }
    if rng.chance(1, 2) {
        v.push(mqtt::packet::SessionExpiryInterval::new(*rng.pick(&[0u32, 100, 0xFFFF_FFFF])).unwrap().into());
    }
    v
}

pub fn mk_connect(rng: &mut Rng, ver: u64) -> Packet {
    mk_connect_opts(rng, ver, None, None)
}

/// CONNECT with a forced clean flag and (v5.0) a forced Session Expiry Interval
pub fn mk_connect_opts(rng: &mut Rng, ver: u64, clean: Option<bool>, sei: Option<u32>) -> Packet {
    let c0 = rng.chance(1, 2);
    let clean = clean.unwrap_or(c0);
    let ka: u16 = *rng.pick(&[0u16, 0, 10, 60]);
    if ver == 4 {
        v3_1_1::Connect::builder().client_id("cid").unwrap().clean_session(clean).keep_alive(ka).build().unwrap().into()
    } else {
        let mut props = props_connect(rng);
        if let Some(x) = sei {
            props.retain(|p| !matches!(p, Property::SessionExpiryInterval(_)));
            props.push(mqtt::packet::SessionExpiryInterval::new(x).unwrap().into());
        }
        v5_0::Connect::builder().client_id("cid").unwrap().clean_start(clean).keep_alive(ka).props(props).build().unwrap().into()
    }
}

/// successful v5.0 CONNACK (session present) announcing exactly this Maximum Packet Size
pub fn mk_connack_mps(rng: &mut Rng, sp: bool, mps: u32) -> Packet {
    let mut props = props_connect(rng);
    props.retain(|p| !matches!(p, Property::SessionExpiryInterval(_) | Property::MaximumPacketSize(_)));
    props.push(mqtt::packet::MaximumPacketSize::new(mps.max(1)).unwrap().into());
    v5_0::Connack::builder().session_present(sp).reason_code(ConnectReasonCode::Success).props(props).build().unwrap().into()
}

/// v5.0 CONNECT (resuming) announcing exactly this Maximum Packet Size
pub fn mk_connect_mps(rng: &mut Rng, mps: u32) -> Packet {
    let mut props = props_connect(rng);
    props.retain(|p| !matches!(p, Property::SessionExpiryInterval(_) | Property::MaximumPacketSize(_)));
    props.push(mqtt::packet::MaximumPacketSize::new(mps.max(1)).unwrap().into());
    props.push(mqtt::packet::SessionExpiryInterval::new(100).unwrap().into());
    v5_0::Connect::builder().client_id("cid").unwrap().clean_start(false).keep_alive(0).props(props).build().unwrap().into()
}

/// successful CONNACK with a forced session-present flag
pub fn mk_connack_sp(rng: &mut Rng, ver: u64, sp: bool) -> Packet {
    if ver == 4 {
        v3_1_1::Connack::builder().session_present(sp).return_code(ConnectReturnCode::Accepted).build().unwrap().into()
    } else {
        let mut props = props_connect(rng);
        props.retain(|p| !matches!(p, Property::SessionExpiryInterval(_)));
        if rng.chance(1, 3) {
            props.push(mqtt::packet::ServerKeepAlive::new(*rng.pick(&[0u16, 5, 30])).unwrap().into());
        }
        v5_0::Connack::builder().session_present(sp).reason_code(ConnectReasonCode::Success).props(props).build().unwrap().into()
    }
}

pub fn mk_connack(rng: &mut Rng, ver: u64) -> Packet {
    let sp = rng.chance(1, 2);
    let ok = rng.chance(5, 6);
    if ver == 4 {
        let rc = if ok { ConnectReturnCode::Accepted } else { ConnectReturnCode::NotAuthorized };
        v3_1_1::Connack::builder().session_present(sp && (ok || rng.chance(1, 3))).return_code(rc).build().unwrap().into()
    } else {
        let rc = if ok { ConnectReasonCode::Success } else { ConnectReasonCode::NotAuthorized };
        let mut props = props_connect(rng);
        if rng.chance(1, 3) {
            props.push(mqtt::packet::ServerKeepAlive::new(*rng.pick(&[0u16, 5, 30])).unwrap().into());
        }
        v5_0::Connack::builder().session_present(sp && (ok || rng.chance(1, 3))).reason_code(rc).props(props).build().unwrap().into()
    }
}

pub fn mk_publish(rng: &mut Rng, ver: u64, qos: u8, pid: u64, dup: bool) -> Option<Packet> {
    let topic = *rng.pick(&TOPICS);
    // mostly small; sometimes a size that puts the Remaining Length next to the 127/128 boundary
    let paylen = if rng.chance(1, 7) { rng.range(88, 126) as usize } else { *rng.pick(&[0usize, 1, 3, 20]) };
    let payload = vec![0x61u8; paylen];
    let q = match qos {
        0 => Qos::AtMostOnce,
        1 => Qos::AtLeastOnce,
        _ => Qos::ExactlyOnce,
    };
    if ver == 4 {
        let mut b = v3_1_1::GenericPublish::<Pid>::builder().topic_name(topic).ok()?.qos(q).payload(payload);
        if qos > 0 {
            b = b.packet_id(pid as Pid);
        }
        b.dup(dup).build().ok().map(|x| x.into())
    } else {
        let mut props: Vec<Property> = Vec::new();
        let mode = rng.below(10);
        // 0-4: topic only; 5-6: topic + alias; 7-8: alias only (empty topic); 9: alias out of the usual range
        let alias: Option<u16> = match mode {
            5..=8 => Some(rng.range(1, 2) as u16),
            9 => Some(*rng.pick(&[4u16, 7, 65535])),
            _ => None,
        };
        if rng.chance(1, 4) {
            props.push(mqtt::packet::MessageExpiryInterval::new(30).unwrap().into());
        }
        if let Some(a) = alias {
            props.push(mqtt::packet::TopicAlias::new(a).unwrap().into());
        }
        let t = if mode == 7 || mode == 8 { "" } else { topic };
        let mut b = v5_0::GenericPublish::<Pid>::builder().topic_name(t).ok()?.qos(q).payload(payload).props(props);
        if qos > 0 {
            b = b.packet_id(pid as Pid);
        }
        b.dup(dup).build().ok().map(|x| x.into())
    }
}

pub fn mk_ack(rng: &mut Rng, ver: u64, ty: u64, pid: u64) -> Option<Packet> {
    let id = pid as Pid;
    let fail = rng.chance(1, 5);
    let explicit = rng.chance(1, 3);
    Some(if ver == 4 {
        match ty {
            4 => v3_1_1::GenericPuback::<Pid>::builder().packet_id(id).build().ok()?.into(),
            5 => v3_1_1::GenericPubrec::<Pid>::builder().packet_id(id).build().ok()?.into(),
            6 => v3_1_1::GenericPubrel::<Pid>::builder().packet_id(id).build().ok()?.into(),
            7 => v3_1_1::GenericPubcomp::<Pid>::builder().packet_id(id).build().ok()?.into(),
            9 => v3_1_1::GenericSuback::<Pid>::builder()
                .packet_id(id)
                .return_codes(vec![SubackReturnCode::SuccessMaximumQos0])
                .build()
                .ok()?
                .into(),
            _ => v3_1_1::GenericUnsuback::<Pid>::builder().packet_id(id).build().ok()?.into(),
        }
    } else {
        match ty {
            4 => {
                let b = v5_0::GenericPuback::<Pid>::builder().packet_id(id);
                if fail {
                    // every failure code of the enum, not only the first
                    b.reason_code(*rng.pick(&[PubackReasonCode::UnspecifiedError, PubackReasonCode::ImplementationSpecificError, PubackReasonCode::NotAuthorized,
                        PubackReasonCode::TopicNameInvalid, PubackReasonCode::PacketIdentifierInUse, PubackReasonCode::QuotaExceeded,
                        PubackReasonCode::PayloadFormatInvalid])).build().ok()?.into()
                } else if explicit {
                    b.reason_code(if rng.chance(1, 2) { PubackReasonCode::Success } else { PubackReasonCode::NoMatchingSubscribers }).build().ok()?.into()
                } else {
                    b.build().ok()?.into()
                }
            }
            5 => {
                let b = v5_0::GenericPubrec::<Pid>::builder().packet_id(id);
                if fail {
                    b.reason_code(*rng.pick(&[PubrecReasonCode::UnspecifiedError, PubrecReasonCode::ImplementationSpecificError, PubrecReasonCode::NotAuthorized,
                        PubrecReasonCode::TopicNameInvalid, PubrecReasonCode::PacketIdentifierInUse, PubrecReasonCode::QuotaExceeded,
                        PubrecReasonCode::PayloadFormatInvalid])).build().ok()?.into()
                } else if explicit {
                    // both success-class codes
                    b.reason_code(if rng.chance(1, 2) { PubrecReasonCode::Success } else { PubrecReasonCode::NoMatchingSubscribers }).build().ok()?.into()
                } else {
                    b.build().ok()?.into()
                }
            }
            6 => {
                let b = v5_0::GenericPubrel::<Pid>::builder().packet_id(id);
                // a reason code may come with properties (Reason String / User Property): the packet is then larger than 4 bytes
                let with_props = rng.chance(1, 3);
                let props: Vec<Property> = if with_props {
                    vec![mqtt::packet::ReasonString::new("abc").unwrap().into()]
                } else {
                    Vec::new()
                };
                if fail && rng.chance(1, 2) {
                    let b = b.reason_code(PubrelReasonCode::PacketIdentifierNotFound);
                    if with_props { b.props(props).build().ok()?.into() } else { b.build().ok()?.into() }
                } else if explicit || with_props {
                    let b = b.reason_code(PubrelReasonCode::Success);
                    if with_props { b.props(props).build().ok()?.into() } else { b.build().ok()?.into() }
                } else {
                    b.build().ok()?.into()
                }
            }
            7 => {
                let b = v5_0::GenericPubcomp::<Pid>::builder().packet_id(id);
                if fail && rng.chance(1, 2) {
                    b.reason_code(PubcompReasonCode::PacketIdentifierNotFound).build().ok()?.into()
                } else if explicit {
                    b.reason_code(PubcompReasonCode::Success).build().ok()?.into()
                } else {
                    b.build().ok()?.into()
                }
            }
            9 => v5_0::GenericSuback::<Pid>::builder()
                .packet_id(id)
                .reason_codes(vec![SubackReasonCode::GrantedQos0])
                .build()
                .ok()?
                .into(),
            _ => v5_0::GenericUnsuback::<Pid>::builder()
                .packet_id(id)
                .reason_codes(vec![UnsubackReasonCode::Success])
                .build()
                .ok()?
                .into(),
        }
    })
}

pub fn mk_sub(ver: u64, pid: u64, unsub: bool) -> Option<Packet> {
    let id = pid as Pid;
    Some(if ver == 4 {
        if unsub {
            v3_1_1::GenericUnsubscribe::<Pid>::builder().packet_id(id).entries(vec!["t/1"]).ok()?.build().ok()?.into()
        } else {
            v3_1_1::GenericSubscribe::<Pid>::builder()
                .packet_id(id)
                .entries(vec![SubEntry::new("t/1", SubOpts::default()).ok()?])
                .build()
                .ok()?
                .into()
        }
    } else if unsub {
        v5_0::GenericUnsubscribe::<Pid>::builder().packet_id(id).entries(vec!["t/1"]).ok()?.build().ok()?.into()
    } else {
        v5_0::GenericSubscribe::<Pid>::builder()
            .packet_id(id)
            .entries(vec![SubEntry::new("t/1", SubOpts::default()).ok()?])
            .build()
            .ok()?
            .into()
    })
}

pub fn mk_simple(ver: u64, ty: u64) -> Option<Packet> {
    Some(if ver == 4 {
        match ty {
            12 => v3_1_1::Pingreq::builder().build().ok()?.into(),
            13 => v3_1_1::Pingresp::builder().build().ok()?.into(),
            _ => v3_1_1::Disconnect::builder().build().ok()?.into(),
        }
    } else {
        match ty {
            12 => v5_0::Pingreq::builder().build().ok()?.into(),
            13 => v5_0::Pingresp::builder().build().ok()?.into(),
            14 => v5_0::Disconnect::builder().reason_code(DisconnectReasonCode::NormalDisconnection).build().ok()?.into(),
            _ => v5_0::Auth::builder().build().ok()?.into(),
        }
    })
}

// ------------------------------------------------------------------------------------------
// one case

pub struct CaseStats {
    pub ops: [u64; 20],
    pub panics: u64,
    pub errors: std::collections::BTreeMap<u64, u64>,
    pub statuses: [u64; 3],
    pub notifies: u64,
    pub sends: u64,
    pub recv_frames_ok: u64,
    pub recv_frames_err: u64,
    pub garbage: u64,
    pub resumes: u64,
}

impl CaseStats {
    pub fn new() -> Self {
        CaseStats {
            ops: [0; 20],
            panics: 0,
            errors: Default::default(),
            statuses: [0; 3],
            notifies: 0,
            sends: 0,
            recv_frames_ok: 0,
            recv_frames_err: 0,
            garbage: 0,
            resumes: 0,
        }
    }
    pub fn merge(&mut self, o: &CaseStats) {
        for i in 0..20 {
            self.ops[i] += o.ops[i];
        }
        self.panics += o.panics;
        for (k, v) in &o.errors {
            *self.errors.entry(*k).or_insert(0) += v;
        }
        for i in 0..3 {
            self.statuses[i] += o.statuses[i];
        }
        self.notifies += o.notifies;
        self.sends += o.sends;
        self.recv_frames_ok += o.recv_frames_ok;
        self.recv_frames_err += o.recv_frames_err;
        self.garbage += o.garbage;
        self.resumes += o.resumes;
    }
    pub fn json(&self) -> String {
        let errs: Vec<String> = self.errors.iter().map(|(k, v)| format!("\"{}\":{}", k, v)).collect();
        format!(
            "{{\"ops_by_tag\":{:?},\"impl_panics\":{},\"error_events_by_code\":{{{}}},\"ops_in_status_disc_conning_conn\":{:?},\"notify_events\":{},\"send_events\":{},\"frames_parsed_ok\":{},\"frames_parse_error\":{},\"garbage_chunks\":{},\"resumes_with_stored\":{}}}",
            self.ops.to_vec(), self.panics, errs.join(","), self.statuses.to_vec(), self.notifies, self.sends, self.recv_frames_ok, self.recv_frames_err, self.garbage, self.resumes
        )
    }
}

/// an abstract op of the harness: what to call; enough to replay a case exactly
#[derive(Clone)]
pub enum Op {
    Send(Packet),
    CheckedSend(Packet),         // the compile-time-checked entry point (recorded as a Send)
    Recv(Vec<u8>),               // one recv() call on this buffer (the unread rest is re-fed by the next op)
    Timer(u64),
    Closed,
    SetPingreqInterval(Option<u64>),
    SetPingrespTimeout(u64),
    SetFlag(u64, bool),          // 6 offline 7 auto_pub 8 auto_ping 9 auto_map 10 auto_replace
    Acquire,
    Register(u64),
    Release(u64),
    Erase(u64),
    RestorePackets(Vec<GenericStorePacket<Pid>>),
    RestoreQos2(Vec<u64>),
    Regulate(Packet),
}


/// `checked_send` with the concrete packet type, where rustc accepts it for the role (autoref
/// specialisation: resolves to the real call iff `T: Sendable<Role, Pid>`), else None
pub trait HRole: mqtt::connection::role::RoleType + Sized {
    fn checked(c: &mut Conn<Self>, p: &Packet) -> Option<Vec<GenericEvent<Pid>>>;
}
pub struct Try<'a, R: mqtt::connection::role::RoleType, T>(pub std::cell::RefCell<Option<(&'a mut Conn<R>, T)>>);
pub trait TryYes {
    fn go(&self) -> Option<Vec<GenericEvent<Pid>>>;
}
impl<'a, R: mqtt::connection::role::RoleType, T: mqtt::connection::Sendable<R, Pid>> TryYes for Try<'a, R, T> {
    fn go(&self) -> Option<Vec<GenericEvent<Pid>>> {
        let (c, t) = self.0.borrow_mut().take().unwrap();
        Some(c.checked_send(t))
    }
}
pub trait TryNo {
    fn go(&self) -> Option<Vec<GenericEvent<Pid>>>;
}
impl<'a, R: mqtt::connection::role::RoleType, T> TryNo for &Try<'a, R, T> {
    fn go(&self) -> Option<Vec<GenericEvent<Pid>>> {
        None
    }
}
macro_rules! checked_impl {
    ($role:ty) => {
        impl HRole for $role {
            fn checked(c: &mut Conn<Self>, p: &Packet) -> Option<Vec<GenericEvent<Pid>>> {
                macro_rules! t {
                    ($x:expr) => {
                        (&Try::<$role, _>(std::cell::RefCell::new(Some((c, $x.clone()))))).go()
                    };
                }
                match p {
                    GenericPacket::V3_1_1Connect(x) => t!(x), GenericPacket::V5_0Connect(x) => t!(x),
                    GenericPacket::V3_1_1Connack(x) => t!(x), GenericPacket::V5_0Connack(x) => t!(x),
                    GenericPacket::V3_1_1Publish(x) => t!(x), GenericPacket::V5_0Publish(x) => t!(x),
                    GenericPacket::V3_1_1Puback(x) => t!(x), GenericPacket::V5_0Puback(x) => t!(x),
                    GenericPacket::V3_1_1Pubrec(x) => t!(x), GenericPacket::V5_0Pubrec(x) => t!(x),
                    GenericPacket::V3_1_1Pubrel(x) => t!(x), GenericPacket::V5_0Pubrel(x) => t!(x),
                    GenericPacket::V3_1_1Pubcomp(x) => t!(x), GenericPacket::V5_0Pubcomp(x) => t!(x),
                    GenericPacket::V3_1_1Subscribe(x) => t!(x), GenericPacket::V5_0Subscribe(x) => t!(x),
                    GenericPacket::V3_1_1Suback(x) => t!(x), GenericPacket::V5_0Suback(x) => t!(x),
                    GenericPacket::V3_1_1Unsubscribe(x) => t!(x), GenericPacket::V5_0Unsubscribe(x) => t!(x),
                    GenericPacket::V3_1_1Unsuback(x) => t!(x), GenericPacket::V5_0Unsuback(x) => t!(x),
                    GenericPacket::V3_1_1Pingreq(x) => t!(x), GenericPacket::V5_0Pingreq(x) => t!(x),
                    GenericPacket::V3_1_1Pingresp(x) => t!(x), GenericPacket::V5_0Pingresp(x) => t!(x),
                    GenericPacket::V3_1_1Disconnect(x) => t!(x), GenericPacket::V5_0Disconnect(x) => t!(x),
                    GenericPacket::V5_0Auth(x) => t!(x),
                }
            }
        }
    };
}
checked_impl!(mqtt::connection::role::Client);
checked_impl!(mqtt::connection::role::Server);
checked_impl!(mqtt::connection::role::Any);

pub struct Runner<R: HRole> {
    pub conn: Option<Conn<R>>,
    pub shadow_pb: PacketBuilder,
    pub out: Vec<u64>,
    pub nops: u64,
    pub dead: bool,
    pub last_events: Vec<GenericEvent<Pid>>,
    pub last_acquired: Option<u64>,
    pub log: Vec<Op>,
    pub last_unread: usize,
}

impl<R: HRole> Runner<R> {
    pub fn new(ver: Version, role_n: u64, ver_n: u64) -> Self {
        let mut out = Vec::new();
        out.extend_from_slice(&[role_n, IDMAX, IDW, ver_n]);
        Runner {
            conn: Some(Conn::<R>::new(ver)),
            shadow_pb: PacketBuilder::new(),
            out,
            nops: 0,
            dead: false,
            last_events: Vec::new(),
            last_acquired: None,
            log: Vec::new(),
            last_unread: 0,
        }
    }

    /// apply one op to the implementation, record op + observation; returns unread byte count for Recv
    pub fn apply(&mut self, op: &Op, st: &mut CaseStats) -> usize {
        if self.dead {
            return 0;
        }
        self.nops += 1;
        self.log.push(op.clone());
        let mut rec: Vec<u64> = Vec::new();
        let mut unread = 0usize;
        let c = self.conn.as_mut().unwrap();
        st.statuses[c.verif_state().status as usize] += 1;
        // ---- encode the op (and the parse oracle for Recv) ----
        match op {
            Op::Send(p) | Op::CheckedSend(p) => {
                rec.push(if let Op::CheckedSend(_) = op { 18 } else { 0 });
                view(p).enc(&mut rec);
                push_bytes(&mut rec, &p.to_continuous_buffer());
            }
            Op::Recv(bytes) => {
                rec.push(1);
                rec.push(bytes.len() as u64);
                rec.extend(bytes.iter().map(|b| *b as u64));
                // shadow framing: does a frame complete in this call, and what does the parser say?
                let ver_now = match c.get_protocol_version() {
                    Version::V3_1_1 => 4,
                    Version::V5_0 => 5,
                    Version::Undetermined => 0,
                };
                let mut cur = Cursor::new(&bytes[..]);
                match self.shadow_pb.feed(&mut cur) {
                    PacketBuildResult::Complete(raw) => {
                        let fh = (raw.packet_type() << 4) | raw.flags();
                        let body = raw.data_as_slice();
                        let v = if ver_now != 0 {
                            ver_now
                        } else if raw.packet_type() == 1 && body.len() >= 7 {
                            match body[6] {
                                4 => 4,
                                5 => 5,
                                _ => 0,
                            }
                        } else {
                            0
                        };
                        if v == 0 {
                            rec.push(2);
                        } else {
                            match catch_unwind(AssertUnwindSafe(|| parse_frame(v, fh, body))) {
                                Ok(Ok(p)) => {
                                    st.recv_frames_ok += 1;
                                    rec.push(0);
                                    view(&p).enc(&mut rec);
                                }
                                Ok(Err(e)) => {
                                    st.recv_frames_err += 1;
                                    rec.push(1);
                                    rec.push(e as u64);
                                }
                                Err(_) => {
                                    rec.push(3); // the parser itself panicked
                                }
                            }
                        }
                    }
                    _ => rec.push(2),
                }
            }
            Op::Timer(k) => {
                rec.push(2);
                rec.push(*k);
            }
            Op::Closed => rec.push(3),
            Op::SetPingreqInterval(o) => {
                rec.push(4);
                push_opt(&mut rec, *o);
            }
            Op::SetPingrespTimeout(n) => {
                rec.push(5);
                rec.push(*n);
            }
            Op::SetFlag(which, b) => {
                rec.push(*which);
                rec.push(*b as u64);
            }
            Op::Acquire => rec.push(11),
            Op::Register(id) => {
                rec.push(12);
                rec.push(*id);
            }
            Op::Release(id) => {
                rec.push(13);
                rec.push(*id);
            }
            Op::Erase(id) => {
                rec.push(14);
                rec.push(*id);
            }
            Op::RestorePackets(l) => {
                rec.push(15);
                rec.push(l.len() as u64);
                for sp in l {
                    let gp: Packet = sp.clone().into();
                    view(&gp).enc(&mut rec);
                    push_bytes(&mut rec, &gp.to_continuous_buffer());
                }
            }
            Op::RestoreQos2(l) => {
                rec.push(16);
                rec.push(l.len() as u64);
                rec.extend_from_slice(l);
            }
            Op::Regulate(p) => {
                rec.push(17);
                view(p).enc(&mut rec);
                push_bytes(&mut rec, &p.to_continuous_buffer());
            }
        }
        st.ops[rec[0] as usize] += 1;
        // ---- run it ----
        let r = catch_unwind(AssertUnwindSafe(|| -> (Vec<GenericEvent<Pid>>, Vec<u64>) {
            match op {
                Op::Send(p) => (c.send(p.clone()), vec![]),
                Op::CheckedSend(p) => match R::checked(c, p) {
                    Some(ev) => (ev, vec![]),
                    None => (c.send(p.clone()), vec![]),   // not sendable for this role at compile time: the run-time path
                },
                Op::Recv(bytes) => {
                    let mut cur = Cursor::new(&bytes[..]);
                    let ev = c.recv(&mut cur);
                    let left = bytes.len() as u64 - cur.position();
                    (ev, vec![left])
                }
                Op::Timer(k) => (
                    c.notify_timer_fired(match k {
                        0 => TimerKind::PingreqSend,
                        1 => TimerKind::PingreqRecv,
                        _ => TimerKind::PingrespRecv,
                    }),
                    vec![],
                ),
                Op::Closed => (c.notify_closed(), vec![]),
                Op::SetPingreqInterval(o) => (c.set_pingreq_send_interval(*o), vec![]),
                Op::SetPingrespTimeout(n) => {
                    c.set_pingresp_recv_timeout(*n);
                    (vec![], vec![])
                }
                Op::SetFlag(which, b) => {
                    match which {
                        6 => c.set_offline_publish(*b),
                        7 => c.set_auto_pub_response(*b),
                        8 => c.set_auto_ping_response(*b),
                        9 => c.set_auto_map_topic_alias_send(*b),
                        _ => c.set_auto_replace_topic_alias_send(*b),
                    }
                    (vec![], vec![])
                }
                Op::Acquire => match c.acquire_packet_id() {
                    Ok(id) => (vec![], vec![id as u64]),
                    Err(_) => (vec![], vec![]),
                },
                Op::Register(id) => (vec![], vec![c.register_packet_id(*id as Pid).is_ok() as u64]),
                Op::Release(id) => (c.release_packet_id(*id as Pid), vec![]),
                Op::Erase(id) => (c.erase_stored_publish(*id as Pid), vec![]),
                Op::RestorePackets(l) => {
                    c.restore_packets(l.clone());
                    (vec![], vec![])
                }
                Op::RestoreQos2(l) => {
                    c.restore_qos2_publish_handled(l.iter().map(|x| *x as Pid).collect());
                    (vec![], vec![])
                }
                Op::Regulate(p) => {
                    if let GenericPacket::V5_0Publish(x) = p {
                        (vec![], vec![c.regulate_for_store(x.clone()).is_err() as u64])
                    } else {
                        (vec![], vec![1])
                    }
                }
            }
        }));
        match r {
            Err(_) => {
                st.panics += 1;
                rec.push(1); // panicked: the object is gone
                self.dead = true;
                self.last_events.clear();
            }
            Ok((evs, ret)) => {
                let mark = rec.len();
                rec.push(0);
                enc_events(&evs, &mut rec);
                for e in &evs {
                    match e {
                        GenericEvent::NotifyError(x) => *st.errors.entry(*x as u16 as u64).or_insert(0) += 1,
                        GenericEvent::NotifyPacketReceived(_) => st.notifies += 1,
                        GenericEvent::RequestSendPacket { .. } => st.sends += 1,
                        _ => {}
                    }
                }
                rec.push(ret.len() as u64);
                rec.extend_from_slice(&ret);
                if let Op::Recv(_) = op {
                    unread = ret[0] as usize;
                }
                if let Op::Acquire = op {
                    self.last_acquired = ret.first().copied();
                }
                // the state digest reads public getters too: a getter that panics counts as a panic of this call
                let mut dg: Vec<u64> = Vec::new();
                let conn_ref = self.conn.as_ref().unwrap();
                if catch_unwind(AssertUnwindSafe(|| digest(conn_ref, &mut dg))).is_ok() {
                    rec.extend_from_slice(&dg);
                    self.last_events = evs;
                } else {
                    st.panics += 1;
                    rec.truncate(mark);
                    rec.push(1);
                    self.dead = true;
                    self.last_events.clear();
                }
            }
        }
        if let Op::Closed = op {
            self.shadow_pb.reset();
        }
        self.out.extend_from_slice(&rec);
        self.last_unread = unread;
        unread
    }

    pub fn line(&self) -> String {
        let mut s = String::with_capacity(self.out.len() * 4 + 8);
        s.push_str("conn");
        for x in &self.out {
            s.push(' ');
            s.push_str(&x.to_string());
        }
        s
    }
}
