//! verif-harness: runs the *implementation* (current /repo working tree, hooks on) on generated
//! inputs and writes case lines (inputs + observed outputs) for the Gallina checkers.
mod alloc;
mod conn;
mod framing;
mod pk;
mod props;
mod rng;
mod tables;

use std::io::Write;

fn arg_val(args: &[String], name: &str) -> Option<String> {
    args.iter().position(|a| a == name).and_then(|i| args.get(i + 1).cloned())
}

fn main() {
    // panics are expected observations: keep stderr quiet
    std::panic::set_hook(Box::new(|_| {}));
    let args: Vec<String> = std::env::args().collect();
    let cmd = args.get(1).map(|s| s.as_str()).unwrap_or("");
    let seed: u64 = arg_val(&args, "--seed").and_then(|s| s.parse().ok()).unwrap_or(1);
    let n: usize = arg_val(&args, "--n").and_then(|s| s.parse().ok()).unwrap_or(100);
    let out_path = arg_val(&args, "--out");
    let stats_path = arg_val(&args, "--stats");
    let mut lines: Vec<String> = Vec::new();
    let mut stats_json = String::from("{}");
    match cmd {
        "alloc" => {
            let mut st = alloc::Stats { ops: [0; 7], panics: 0, max_intervals: 0, full: 0 };
            alloc::generate(seed, n, &mut lines, &mut st);
            if let Some(e) = arg_val(&args, "--enum") {
                let parts: Vec<u64> = e.split(',').map(|x| x.parse().unwrap()).collect();
                alloc::enumerate_small(parts[0], parts[1] as usize, &mut lines, &mut st);
            }
            stats_json = format!(
                "{{\"ops\":{{\"allocate\":{},\"first_vacant\":{},\"deallocate\":{},\"use_value\":{},\"is_used\":{},\"clear\":{},\"interval_count\":{}}},\"impl_panics\":{},\"max_intervals\":{},\"allocate_exhausted\":{}}}",
                st.ops[0], st.ops[1], st.ops[2], st.ops[3], st.ops[4], st.ops[5], st.ops[6], st.panics, st.max_intervals, st.full
            );
        }
        "framing" => {
            let mut st = framing::Stats::new();
            let thorough = args.iter().any(|a| a == "--thorough");
            framing::generate(seed, n, thorough, &mut lines, &mut st);
            stats_json = st.json();
        }
        "conn" => {
            let mut st = conn::Stats::new();
            let bias: u64 = arg_val(&args, "--bias").and_then(|s| s.parse().ok()).unwrap_or(0);
            conn::generate(seed, n, bias, &mut lines, &mut st);
            stats_json = st.json();
        }
        "conn-duo" => {
            let mut st = conn::Stats::new();
            conn::generate_duo(seed, n, &mut lines, &mut st);
            stats_json = st.json();
        }
        "conn-duo-replay" => {
            let cs: u64 = args.get(2).and_then(|s| s.parse().ok()).unwrap_or(1);
            lines.push(conn::replay_duo(cs));
        }
        "conn-pair" => {
            let mut st = conn::Stats::new();
            let bias: u64 = arg_val(&args, "--bias").and_then(|s| s.parse().ok()).unwrap_or(0);
            let kind: u64 = arg_val(&args, "--kind").and_then(|s| s.parse().ok()).unwrap_or(10);
            conn::generate_pair(seed, n, bias, kind, &mut lines, &mut st);
            stats_json = st.json();
        }
        "conn-pair-replay" => {
            lines.push(conn::replay_pair(&args[2..]));
        }
        "props-lists" => {
            let (a, r) = props::gen_lists(seed, n, &mut lines);
            stats_json = format!("{{\"lists\":{},\"builder_accepts\":{},\"builder_rejects\":{}}}", n, a, r);
        }
        "props-replay" => {
            let nums: Vec<u64> = args[2..].iter().filter_map(|s| s.parse().ok()).collect();
            lines.push(props::replay_list(&nums));
        }
        "pk" => {
            stats_json = pk::generate(seed, n, &mut lines);
        }
        "pk-parse" => {
            let el: usize = arg_val(&args, "--enum-len").and_then(|s| s.parse().ok()).unwrap_or(1);
            stats_json = pk::generate_parse(seed, n, el, &mut lines);
        }
        "pk-parse-replay" => {
            let nums: Vec<u64> = args[2..].iter().filter_map(|s| s.parse().ok()).collect();
            lines.push(pk::replay_parse(&nums));
        }
        "pk-replay" => {
            let nums: Vec<u64> = args[2..].iter().filter_map(|s| s.parse().ok()).collect();
            lines.push(pk::replay(&nums));
        }
        "conn-matrix" => {
            let mut st = conn::c16::CaseStats::new();
            let (cells, unreachable) = conn::c16::gen_matrix(&mut lines, &mut st);
            stats_json = format!("{{\"cells\":{},\"unreachable_cells_skipped\":{},\"detail\":{}}}", cells, unreachable, st.json());
        }
        "conn-recv-matrix" => {
            let mut st = conn::c16::CaseStats::new();
            let cells = conn::c16::gen_recv_matrix(&mut lines, &mut st);
            stats_json = format!("{{\"cells\":{},\"detail\":{}}}", cells, st.json());
        }
        "tables" => {
            let dir = arg_val(&args, "--dir").unwrap_or_else(|| "/verif/coq/theories/Generated".to_string());
            tables::write_sendable_v(&format!("{}/ObservedSendable.v", dir));
            props::write_props_v(&format!("{}/ObservedProps.v", dir));
            props::write_codes_v(&format!("{}/ObservedCodes.v", dir));
        }
        "conn-replay" => {
            lines.push(conn::replay(&args[2..]));
        }
        "framing-replay" => {
            let mut st = framing::Stats::new();
            let nums: Vec<u64> = args[2..].iter().filter_map(|s| s.parse().ok()).collect();
            lines.push(framing::replay(&nums, &mut st));
        }
        "alloc-replay" => {
            let mut st = alloc::Stats { ops: [0; 7], panics: 0, max_intervals: 0, full: 0 };
            let nums: Vec<u64> = args[2..].iter().filter_map(|s| s.parse().ok()).collect();
            lines.push(alloc::replay(&nums, &mut st));
        }
        _ => {
            eprintln!("usage: verif-harness <alloc|alloc-replay|...> [--seed S] [--n N] [--out F] [--stats F]");
            std::process::exit(2);
        }
    }
    let mut w: Box<dyn Write> = match out_path {
        Some(p) => Box::new(std::io::BufWriter::new(std::fs::File::create(p).unwrap())),
        None => Box::new(std::io::BufWriter::new(std::io::stdout())),
    };
    for l in &lines {
        writeln!(w, "{}", l).unwrap();
    }
    if let Some(p) = stats_path {
        std::fs::write(p, stats_json).unwrap();
    }
}
