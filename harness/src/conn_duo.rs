// Included by conn.rs after conn_gen.rs: C01 — a client object and a server object wired by two
// byte queues; workload from both sides, arbitrary delivery order/fragmentation per direction,
// transport losses with session resumption.

pub struct Duo {
    pub c: Runner<role::Client>,
    pub s: Runner<role::Server>,
    pub c2s: Vec<u8>,
    pub s2c: Vec<u8>,
    pub up: bool,
    pub sched: Vec<u64>,          // 0 = client call, 1 = server call, in global order
    pub ver: u64,
    pub auto_c: bool,
    pub auto_s: bool,
    pub auto_ping_s: bool,
    pub had_session: bool,
    pub connack_props: Vec<Property>,
    pub connect_props: Vec<Property>,
    pub losses: u64,
    pub content_bad: u64,
    pub next_tag: usize,
    pub st: CaseStats,
    pub alias_c: Vec<(u16, String)>,   // aliases the client has bound on this connection
    pub alias_s: Vec<(u16, String)>,
    pub pending_close: bool,
    pub mps_c2s: Option<u32>,          // Maximum Packet Size the server announced (limit for the client's sends)
    pub mps_s2c: Option<u32>,
    pub auto_map_c: bool,
    pub auto_map_s: bool,
    pub used_tags: Vec<bool>,
}

fn payload_of(tag: usize) -> Vec<u8> {
    vec![(tag % 251) as u8; tag]
}

impl Duo {
    fn apply_c(&mut self, op: Op) -> usize {
        if self.c.dead { return 0 }
        self.sched.push(0);
        let unread = self.c.apply(&op, &mut self.st);
        self.react(true);
        unread
    }
    fn apply_s(&mut self, op: Op) -> usize {
        if self.s.dead { return 0 }
        self.sched.push(1);
        let unread = self.s.apply(&op, &mut self.st);
        self.react(false);
        unread
    }

    /// the I/O layer and the application of one side, driven by the events of its last call
    fn react(&mut self, client: bool) {
        let evs: Vec<GenericEvent<Pid>> = if client { self.c.last_events.clone() } else { self.s.last_events.clone() };
        let mut replies: Vec<Packet> = Vec::new();
        for e in &evs {
            match e {
                GenericEvent::RequestSendPacket { packet, .. } => {
                    if self.up {
                        let b = packet.to_continuous_buffer();
                        if client { self.c2s.extend_from_slice(&b) } else { self.s2c.extend_from_slice(&b) }
                    }
                }
                GenericEvent::RequestClose => self.pending_close = true,
                GenericEvent::NotifyPacketReceived(p) => {
                    let w = view(p);
                    let auto = if client { self.auto_c } else { self.auto_s };
                    // content check of delivered publishes
                    match p {
                        GenericPacket::V3_1_1Publish(x) => { if x.payload().as_slice() != &payload_of(x.payload().len())[..] { self.content_bad += 1 } }
                        GenericPacket::V5_0Publish(x) => { if x.payload().as_slice() != &payload_of(x.payload().len())[..] { self.content_bad += 1 } }
                        _ => {}
                    }
                    match w.ty {
                        1 if !client => {
                            let sp = self.had_session && !w.flag;
                            let p: Packet = if self.ver == 4 {
                                v3_1_1::Connack::builder().session_present(sp).return_code(ConnectReturnCode::Accepted).build().unwrap().into()
                            } else {
                                v5_0::Connack::builder().session_present(sp).reason_code(ConnectReasonCode::Success).props(self.connack_props.clone()).build().unwrap().into()
                            };
                            replies.push(p);
                            self.had_session = true;
                        }
                        8 if !client => if let Some(a) = mk_ack_plain(self.ver, 9, w.pid) { replies.push(a) },
                        10 if !client => if let Some(a) = mk_ack_plain(self.ver, 11, w.pid) { replies.push(a) },
                        12 if !client && !self.auto_ping_s => if let Some(a) = mk_simple(self.ver, 13) { replies.push(a) },
                        3 if !auto && w.qos == 1 => if let Some(a) = mk_ack_plain(self.ver, 4, w.pid) { replies.push(a) },
                        3 if !auto && w.qos == 2 => if let Some(a) = mk_ack_plain(self.ver, 5, w.pid) { replies.push(a) },
                        5 if !auto && !(w.rc_present && w.rc >= 128) => if let Some(a) = mk_ack_plain(self.ver, 6, w.pid) { replies.push(a) },
                        6 if !auto => if let Some(a) = mk_ack_plain(self.ver, 7, w.pid) { replies.push(a) },
                        _ => {}
                    }
                }
                _ => {}
            }
        }
        for p in replies {
            if client { self.apply_c(Op::Send(p)); } else { self.apply_s(Op::Send(p)); }
        }
    }

    fn close_both(&mut self) {
        self.up = false;
        self.c2s.clear();
        self.s2c.clear();
        self.pending_close = false;
        self.apply_c(Op::Closed);
        self.apply_s(Op::Closed);
        self.alias_c.clear();
        self.alias_s.clear();
        self.pending_close = false;
    }

    fn connect(&mut self, rng: &mut Rng, first: bool) {
        self.up = true;
        let clean = first && rng.chance(1, 2);
        let p: Packet = if self.ver == 4 {
            v3_1_1::Connect::builder().client_id("cid").unwrap().clean_session(false).keep_alive(0).build().unwrap().into()
        } else {
            v5_0::Connect::builder().client_id("cid").unwrap().clean_start(clean).keep_alive(0).props(self.connect_props.clone()).build().unwrap().into()
        };
        self.apply_c(Op::Send(p));
    }

    /// deliver a prefix of one direction's bytes
    fn deliver(&mut self, rng: &mut Rng, to_server: bool, all: bool) {
        let q = if to_server { &mut self.c2s } else { &mut self.s2c };
        if q.is_empty() { return }
        let k = if all || rng.chance(1, 2) { q.len() } else { rng.range(1, q.len() as u64) as usize };
        let chunk: Vec<u8> = q.drain(..k).collect();
        let mut buf = chunk;
        loop {
            // the unread rest of the buffer is fed again (recv returns after one frame)
            let unread = if to_server { self.apply_s(Op::Recv(buf.clone())) } else { self.apply_c(Op::Recv(buf.clone())) };
            if self.pending_close || unread == 0 || unread >= buf.len() { break }
            buf = buf[buf.len() - unread..].to_vec();
        }
        if self.pending_close {
            self.close_both();
        }
    }

    fn both_connected(&self) -> bool {
        self.up && !self.c.dead && !self.s.dead
            && self.c.conn.as_ref().unwrap().verif_state().status == 2
            && self.s.conn.as_ref().unwrap().verif_state().status == 2
    }

    fn publish(&mut self, rng: &mut Rng, from_client: bool) {
        let ver = self.ver;
        let qos = *rng.pick(&[0u8, 1, 2, 2, 2]);
        let (vac, tam) = if from_client {
            let c = self.c.conn.as_ref().unwrap();
            (c.get_receive_maximum_vacancy_for_send(), c.verif_state().topic_alias_send.as_ref().map(|t| t.0).unwrap_or(0))
        } else {
            let c = self.s.conn.as_ref().unwrap();
            (c.get_receive_maximum_vacancy_for_send(), c.verif_state().topic_alias_send.as_ref().map(|t| t.0).unwrap_or(0))
        };
        if qos > 0 && vac == Some(0) { return }
        let mut id = 0u64;
        if qos > 0 {
            if from_client { self.apply_c(Op::Acquire); id = self.c.last_acquired.take().unwrap_or(0) } else { self.apply_s(Op::Acquire); id = self.s.last_acquired.take().unwrap_or(0) }
            if id == 0 { return }
        }
        self.next_tag += 1;
        let limit = if from_client { self.mps_c2s } else { self.mps_s2c };
        let auto_map = if from_client { self.auto_map_c } else { self.auto_map_s };
        let topic = *rng.pick(&["a", "t/1", "t/22"]);
        let q = match qos { 0 => Qos::AtMostOnce, 1 => Qos::AtLeastOnce, _ => Qos::ExactlyOnce };
        // the message identity is its payload length: a fresh length per message; with a packet-size limit
        // in force, lengths that bring the packet within a few bytes of the limit are preferred
        let mut use_alias: Option<(u16, bool)> = None;   // (alias, topic omitted)
        if ver == 5 && !auto_map && tam > 0 && rng.chance(1, 2) {
            let aliases = if from_client { &self.alias_c } else { &self.alias_s };
            let a = rng.range(1, tam.min(2) as u64) as u16;
            let omit = match aliases.iter().find(|(x, _)| *x == a) { Some((_, bound)) => bound == topic && rng.chance(2, 3), None => false };
            use_alias = Some((a, omit));
        }
        let build = |tag: usize| -> Option<Packet> {
            if ver == 4 {
                let mut b = v3_1_1::GenericPublish::<Pid>::builder().topic_name(topic).unwrap().qos(q).payload(payload_of(tag));
                if qos > 0 { b = b.packet_id(id as Pid) }
                b.build().ok().map(|x| x.into())
            } else {
                let mut props: Vec<Property> = Vec::new();
                let mut t = topic.to_string();
                if let Some((a, omit)) = use_alias {
                    if omit { t = String::new() }
                    props.push(mqtt::packet::TopicAlias::new(a).unwrap().into());
                }
                let mut b = v5_0::GenericPublish::<Pid>::builder().topic_name(t).unwrap().qos(q).payload(payload_of(tag)).props(props);
                if qos > 0 { b = b.packet_id(id as Pid) }
                b.build().ok().map(|x| x.into())
            }
        };
        let mut chosen: Option<(usize, Packet)> = None;
        for attempt in 0..12 {
            let tag = match limit {
                Some(l) if attempt < 6 && rng.chance(2, 3) => {
                    // size(tag) = size(1) + tag - 1 for these small packets
                    let base = build(1).map(|p| p.size()).unwrap_or(12);
                    let want = (l as usize).saturating_sub(rng.below(5) as usize);
                    if want > base { 1 + want - base } else { 1 + rng.below(20) as usize }
                }
                _ => 1 + rng.below(110) as usize,
            };
            if tag == 0 || tag >= self.used_tags.len() || self.used_tags[tag] { continue }
            if let Some(p) = build(tag) {
                if let Some(l) = limit { if p.size() > l as usize { continue } }
                chosen = Some((tag, p));
                break;
            }
        }
        let p = match chosen {
            Some((tag, p)) => { self.used_tags[tag] = true; Some(p) }
            None => {
                // no usable length: give the identifier back
                if qos > 0 { if from_client { self.apply_c(Op::Release(id)); } else { self.apply_s(Op::Release(id)); } }
                None
            }
        };
        if let (Some(_), Some((a, omit))) = (&p, use_alias) {
            if !omit {
                let aliases = if from_client { &mut self.alias_c } else { &mut self.alias_s };
                aliases.retain(|(x, _)| *x != a);
                aliases.push((a, topic.to_string()));
            }
        }
        if let Some(p) = p {
            if from_client { self.apply_c(Op::Send(p)); } else { self.apply_s(Op::Send(p)); }
        }
    }
}

fn mk_ack_plain(ver: u64, ty: u64, pid: u64) -> Option<Packet> {
    let id = pid as Pid;
    Some(if ver == 4 {
        match ty {
            4 => v3_1_1::GenericPuback::<Pid>::builder().packet_id(id).build().ok()?.into(),
            5 => v3_1_1::GenericPubrec::<Pid>::builder().packet_id(id).build().ok()?.into(),
            6 => v3_1_1::GenericPubrel::<Pid>::builder().packet_id(id).build().ok()?.into(),
            7 => v3_1_1::GenericPubcomp::<Pid>::builder().packet_id(id).build().ok()?.into(),
            9 => v3_1_1::GenericSuback::<Pid>::builder().packet_id(id).return_codes(vec![SubackReturnCode::SuccessMaximumQos0]).build().ok()?.into(),
            _ => v3_1_1::GenericUnsuback::<Pid>::builder().packet_id(id).build().ok()?.into(),
        }
    } else {
        match ty {
            4 => v5_0::GenericPuback::<Pid>::builder().packet_id(id).build().ok()?.into(),
            5 => v5_0::GenericPubrec::<Pid>::builder().packet_id(id).build().ok()?.into(),
            6 => v5_0::GenericPubrel::<Pid>::builder().packet_id(id).build().ok()?.into(),
            7 => v5_0::GenericPubcomp::<Pid>::builder().packet_id(id).build().ok()?.into(),
            9 => v5_0::GenericSuback::<Pid>::builder().packet_id(id).reason_codes(vec![SubackReasonCode::GrantedQos0]).build().ok()?.into(),
            _ => v5_0::GenericUnsuback::<Pid>::builder().packet_id(id).reason_codes(vec![UnsubackReasonCode::Success]).build().ok()?.into(),
        }
    })
}

/// one C01 case.  Line: duo case_seed lenC <client trace> lenS <server trace> nsched sched.. drained losses content_bad
pub fn duo_case(case_seed: u64, rng: &mut Rng, stats: &mut CaseStats) -> (String, u64) {
    let ver = if rng.chance(1, 3) { 4 } else { 5 };
    let version = if ver == 4 { Version::V3_1_1 } else { Version::V5_0 };
    let mut props_c: Vec<Property> = Vec::new();
    let mut props_s: Vec<Property> = Vec::new();
    if ver == 5 {
        for ps in [&mut props_c, &mut props_s] {
            if rng.chance(3, 4) { ps.push(mqtt::packet::ReceiveMaximum::new(*rng.pick(&[1u16, 1, 2, 3])).unwrap().into()) }
            if rng.chance(1, 2) { ps.push(mqtt::packet::TopicAliasMaximum::new(*rng.pick(&[0u16, 1, 2])).unwrap().into()) }
            if rng.chance(1, 3) { ps.push(mqtt::packet::MaximumPacketSize::new(*rng.pick(&[32u32, 40, 48, 64, 300, 1000])).unwrap().into()) }
        }
        props_c.push(mqtt::packet::SessionExpiryInterval::new(1000).unwrap().into());
    }
    let mut d = Duo {
        c: Runner::<role::Client>::new(version, 0, ver),
        s: Runner::<role::Server>::new(version, 1, ver),
        c2s: Vec::new(), s2c: Vec::new(), up: false, sched: Vec::new(), ver,
        auto_c: rng.chance(2, 3), auto_s: rng.chance(2, 3), auto_ping_s: rng.chance(1, 2), had_session: false,
        connack_props: props_s, connect_props: props_c, losses: 0, content_bad: 0, next_tag: 0, st: CaseStats::new(),
        alias_c: Vec::new(), alias_s: Vec::new(), pending_close: false,
        mps_c2s: None, mps_s2c: None, auto_map_c: ver == 5 && rng.chance(1, 3), auto_map_s: ver == 5 && rng.chance(1, 3),
        used_tags: vec![false; 256],
    };
    for (ps, slot) in [(&d.connack_props, 0), (&d.connect_props, 1)] {
        for p in ps.iter() {
            if let Property::MaximumPacketSize(m) = p { if slot == 0 { d.mps_c2s = Some(m.val()) } else { d.mps_s2c = Some(m.val()) } }
        }
    }
    if d.auto_map_c { d.apply_c(Op::SetFlag(9, true)); }
    if d.auto_map_s { d.apply_s(Op::SetFlag(9, true)); }
    d.c.out.insert(0, 1);
    d.s.out.insert(0, 1);
    if d.auto_c { d.apply_c(Op::SetFlag(7, true)); }
    if d.auto_s { d.apply_s(Op::SetFlag(7, true)); }
    if d.auto_ping_s { d.apply_s(Op::SetFlag(8, true)); }
    d.connect(rng, true);
    let steps = rng.range(10, 70);
    let mut i = 0;
    while i < steps && !d.c.dead && !d.s.dead {
        i += 1;
        if !d.up {
            d.connect(rng, false);
            continue;
        }
        let roll = rng.below(100);
        if roll < 6 {
            // transport loss at an arbitrary point (bytes in flight are discarded, possibly mid-frame)
            d.losses += 1;
            if rng.chance(1, 2) && !d.c2s.is_empty() { d.deliver(rng, true, false) }
            d.close_both();
            continue;
        }
        if roll < 45 { d.deliver(rng, true, false); continue }
        if roll < 80 { d.deliver(rng, false, false); continue }
        if !d.both_connected() { continue }
        if d.c.conn.as_ref().unwrap().verif_state().status != 2 { continue }
        match rng.below(10) {
            0..=4 => d.publish(rng, true),
            5..=7 => d.publish(rng, false),
            8 => {
                d.apply_c(Op::Acquire);
                if let Some(id) = d.c.last_acquired.take() {
                    if let Some(p) = mk_sub(ver, id, rng.chance(1, 3)) { d.apply_c(Op::Send(p)); }
                }
            }
            _ => if let Some(p) = mk_simple(ver, 12) { d.apply_c(Op::Send(p)); },
        }
    }
    // quiescence: no more workload; reconnect if the transport is down; deliver everything
    let mut drained = false;
    let mut rounds = 0;
    while rounds < 400 && !d.c.dead && !d.s.dead {
        rounds += 1;
        if !d.up { d.connect(rng, false); continue }
        if d.c2s.is_empty() && d.s2c.is_empty() {
            if d.both_connected() { drained = true; break }
            // nothing in flight and not connected: the handshake cannot progress
            break;
        }
        if !d.c2s.is_empty() { d.deliver(rng, true, true) }
        if !d.s2c.is_empty() { d.deliver(rng, false, true) }
    }
    let mut o: Vec<u64> = Vec::new();
    o.push(case_seed);
    o.push(d.c.out.len() as u64);
    o.extend_from_slice(&d.c.out);
    o.push(d.s.out.len() as u64);
    o.extend_from_slice(&d.s.out);
    o.push(d.sched.len() as u64);
    o.extend_from_slice(&d.sched);
    o.push(drained as u64);
    o.push(d.losses);
    o.push(d.content_bad);
    let mut s = String::with_capacity(o.len() * 4 + 8);
    s.push_str("duo");
    for x in &o { s.push(' '); s.push_str(&x.to_string()) }
    stats.merge(&d.st);
    (s, d.c.nops + d.s.nops)
}
