//! T-diff driver for PacketBuilder::feed: streams of valid/invalid frames cut into chunks.
//! One "framing ..." line per case: chunks, and for every feed() call its result and cursor advance.
use crate::rng::Rng;
use mqtt_protocol_core::mqtt::common::Cursor;
use mqtt_protocol_core::mqtt::connection::{PacketBuildResult, PacketBuilder};
use std::fmt::Write;

pub struct Stats {
    pub cases: u64,
    pub frames_complete: u64,
    pub frames_error: u64,
    pub calls: u64,
    pub chunks: u64,
    pub nonminimal: u64,
    pub max_stream: usize,
    pub exhaustive_splits: u64,
}

impl Stats {
    pub fn new() -> Self {
        Stats { cases: 0, frames_complete: 0, frames_error: 0, calls: 0, chunks: 0, nonminimal: 0, max_stream: 0, exhaustive_splits: 0 }
    }
    pub fn json(&self) -> String {
        format!(
            "{{\"cases\":{},\"frames_complete\":{},\"frames_error\":{},\"feed_calls\":{},\"chunks\":{},\"nonminimal_lengths\":{},\"max_stream_bytes\":{},\"exhaustive_split_cases\":{}}}",
            self.cases, self.frames_complete, self.frames_error, self.calls, self.chunks, self.nonminimal, self.max_stream, self.exhaustive_splits
        )
    }
}

fn enc_len(mut n: usize, pad: usize, out: &mut Vec<u8>) {
    // minimal encoding, then `pad` extra continuation bytes carrying 0 (non-minimal, still <= 4 bytes)
    let mut bytes = Vec::new();
    loop {
        let b = (n % 128) as u8;
        n /= 128;
        if n > 0 {
            bytes.push(b | 0x80);
        } else {
            bytes.push(b);
            break;
        }
    }
    let pad = pad.min(4 - bytes.len());
    if pad > 0 {
        let last = bytes.len() - 1;
        bytes[last] |= 0x80;
        for i in 0..pad {
            bytes.push(if i + 1 == pad { 0x00 } else { 0x80 });
        }
    }
    out.extend_from_slice(&bytes);
}

pub fn gen_stream(rng: &mut Rng, big: bool, stats: &mut Stats) -> Vec<u8> {
    let mut s = Vec::new();
    let nframes = rng.range(1, 6);
    let lens: &[usize] = if big {
        &[0, 1, 2, 127, 128, 129, 300, 16383, 16384, 16385, 2097151, 2097152]
    } else {
        &[0, 0, 1, 1, 2, 3, 5, 127, 128, 129, 300, 16383, 16384]
    };
    for _ in 0..nframes {
        let fh: u8 = if rng.chance(1, 3) { 0x30 | (rng.below(16) as u8) } else { rng.below(256) as u8 };
        match rng.below(20) {
            0 | 1 => {
                // length field of five bytes: error after the 4th, framing resumes at the next byte
                s.push(fh);
                for _ in 0..4 {
                    s.push(0x80 | (rng.below(128) as u8));
                }
            }
            _ => {
                let mut n = *rng.pick(lens);
                if rng.chance(1, 4) {
                    n = rng.range(0, 40) as usize;
                }
                s.push(fh);
                let pad = if rng.chance(1, 6) { rng.range(1, 3) as usize } else { 0 };
                if pad > 0 {
                    stats.nonminimal += 1;
                }
                enc_len(n, pad, &mut s);
                for _ in 0..n {
                    s.push(rng.below(256) as u8);
                }
            }
        }
    }
    if rng.chance(1, 5) && s.len() > 1 {
        // cut the last frame short
        let cut = rng.range(1, (s.len() - 1).min(6) as u64) as usize;
        s.truncate(s.len() - cut);
    }
    s
}

/// run the implementation on the chunks; every feed call is recorded
pub fn run_chunks(chunks: &[Vec<u8>], stats: &mut Stats) -> String {
    let mut out = String::new();
    write!(out, "framing {}", chunks.len()).unwrap();
    let mut pb = PacketBuilder::new();
    for c in chunks {
        stats.chunks += 1;
        write!(out, " {}", c.len()).unwrap();
        for b in c {
            write!(out, " {}", b).unwrap();
        }
        let mut calls = String::new();
        let mut ncalls = 0;
        let mut cur = Cursor::new(&c[..]);
        loop {
            let before = cur.position();
            if before as usize >= c.len() && ncalls > 0 {
                break;
            }
            let r = pb.feed(&mut cur);
            let consumed = cur.position() - before;
            ncalls += 1;
            stats.calls += 1;
            match r {
                PacketBuildResult::Complete(raw) => {
                    stats.frames_complete += 1;
                    let body = raw.data_as_slice();
                    let fh = (raw.packet_type() << 4) | raw.flags();
                    write!(calls, " 0 {} {}", fh, body.len()).unwrap();
                    for b in body {
                        write!(calls, " {}", b).unwrap();
                    }
                }
                PacketBuildResult::Incomplete => {
                    write!(calls, " 1 0 0").unwrap();
                }
                PacketBuildResult::Error(_) => {
                    stats.frames_error += 1;
                    write!(calls, " 2 0 0").unwrap();
                }
            }
            write!(calls, " {}", consumed).unwrap();
            if c.is_empty() {
                break;
            }
            if consumed == 0 {
                // no progress on a non-empty buffer: record and stop (the checker will flag it)
                break;
            }
        }
        write!(out, " {}{}", ncalls, calls).unwrap();
    }
    out
}

fn random_partition(rng: &mut Rng, s: &[u8]) -> Vec<Vec<u8>> {
    let mut chunks = Vec::new();
    let mut i = 0;
    while i < s.len() {
        // long streams get long chunks (the Gallina model appends to raw_buf: quadratic otherwise)
        let (lo, max) = if s.len() > 100_000 { (s.len() / 8, s.len() / 2) } else if s.len() > 4000 { (200, 4000) } else if rng.chance(1, 3) { (1, 3) } else { (1, 64) };
        let max = max.min(s.len() - i);
        let n = rng.range(lo.min(max) as u64, max as u64) as usize;
        chunks.push(s[i..i + n].to_vec());
        i += n;
        if rng.chance(1, 12) {
            chunks.push(Vec::new());
        }
    }
    if chunks.is_empty() {
        chunks.push(Vec::new());
    }
    chunks
}

pub fn generate(seed: u64, n: usize, thorough: bool, out: &mut Vec<String>, stats: &mut Stats) {
    let mut rng = Rng::new(seed ^ 0xF4A3E);
    for i in 0..n {
        let big = thorough && i % 400 == 0;
        let s = gen_stream(&mut rng, big, stats);
        stats.max_stream = stats.max_stream.max(s.len());
        stats.cases += 1;
        // whole stream in one buffer
        out.push(run_chunks(&[s.clone()], stats));
        // random partition
        let p = random_partition(&mut rng, &s);
        out.push(run_chunks(&p, stats));
        stats.cases += 1;
        if s.len() <= 48 {
            // all single bytes, and every single split point (exhaustive for this stream)
            let singles: Vec<Vec<u8>> = s.iter().map(|b| vec![*b]).collect();
            out.push(run_chunks(&singles, stats));
            stats.cases += 1;
            for k in 1..s.len() {
                out.push(run_chunks(&[s[..k].to_vec(), s[k..].to_vec()], stats));
                stats.cases += 1;
                stats.exhaustive_splits += 1;
            }
        } else if s.len() <= 2000 {
            let k = rng.range(1, (s.len() - 1) as u64) as usize;
            out.push(run_chunks(&[s[..k].to_vec(), s[k..].to_vec()], stats));
            stats.cases += 1;
        }
    }
}

/// replay: explicit chunks given as  nchunks { len bytes }
pub fn replay(nums: &[u64], stats: &mut Stats) -> String {
    let mut chunks = Vec::new();
    let n = nums[0] as usize;
    let mut i = 1;
    for _ in 0..n {
        let l = nums[i] as usize;
        chunks.push(nums[i + 1..i + 1 + l].iter().map(|x| *x as u8).collect::<Vec<u8>>());
        i += 1 + l;
    }
    run_chunks(&chunks, stats)
}
