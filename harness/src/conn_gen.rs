// Included by conn.rs after conn_body.rs (per packet-id width): the case generator.

use mqtt::connection::role;

#[derive(Default)]
struct Ghost {
    as_client: bool,
    held: Vec<u64>,          // acquired/registered, not yet handed to a send
    limbo: Vec<u64>,         // own QoS2: success PUBREC seen, PUBREL not sent yet (manual responses)
    in_q1: Vec<u64>,         // inbound QoS1 notified, PUBACK not sent (manual)
    in_q2: Vec<u64>,         // inbound QoS2 notified, PUBREC not sent (manual)
    in_rel: Vec<u64>,        // inbound PUBREL notified, PUBCOMP not sent (manual)
    wire_ver: u64,           // 4 / 5 once known
    auto_pub: bool,
}

fn contains_close(evs: &[GenericEvent<Pid>]) -> bool {
    evs.iter().any(|e| matches!(e, GenericEvent::RequestClose))
}

fn mutate(rng: &mut Rng, mut b: Vec<u8>) -> Vec<u8> {
    if b.is_empty() {
        return b;
    }
    match rng.below(7) {
        5 | 6 => {
            // a frame-consistent truncation: the body is cut and the Remaining Length says so, so the frame completes and
            // the parser of that kind meets a body that ends at an arbitrary point (each of its length checks at its boundary)
            if b.len() > 2 && b[1] < 0x80 && b.len() == 2 + b[1] as usize {
                let k = rng.below(b[1] as u64) as usize;
                b.truncate(2 + k);
                b[1] = k as u8;
            }
        }
        0 => {
            let i = rng.below(b.len() as u64) as usize;
            b[i] ^= 1 << rng.below(8);
        }
        1 => {
            let n = rng.range(1, b.len() as u64) as usize;
            b.truncate(n);
        }
        2 => {
            let i = rng.below(b.len() as u64 + 1) as usize;
            b.insert(i, *rng.pick(&[0x00u8, 0x80, 0xFF]));
        }
        3 => {
            if b.len() > 1 {
                b[1] = b[1].wrapping_add(*rng.pick(&[1u8, 255, 2]));
            }
        }
        _ => {
            let i = rng.below(b.len() as u64) as usize;
            b[i] = rng.below(256) as u8;
        }
    }
    b
}

/// feed peer bytes as successive recv() calls; stops when a close is requested (contract)
fn feed<R: HRole>(run: &mut Runner<R>, rng: &mut Rng, bytes: Vec<u8>, g: &mut Ghost, st: &mut CaseStats, abuse: bool) {
    let mut chunks: Vec<Vec<u8>> = Vec::new();
    if bytes.len() >= 2 && rng.chance(1, 4) {
        let k = rng.range(1, bytes.len() as u64 - 1) as usize;
        chunks.push(bytes[..k].to_vec());
        chunks.push(bytes[k..].to_vec());
    } else {
        chunks.push(bytes);
    }
    for c in chunks {
        let mut buf = c;
        loop {
            let unread = run.apply(&Op::Recv(buf.clone()), st);
            observe(run, g);
            if run.dead {
                return;
            }
            if contains_close(&run.last_events) && !abuse {
                return;
            }
            if unread == 0 || unread >= buf.len() {
                break;
            }
            buf = buf[buf.len() - unread..].to_vec();
        }
    }
}

/// update the application-side ghost from the events of the last call
fn observe<R: HRole>(run: &Runner<R>, g: &mut Ghost) {
    for e in &run.last_events {
        if let GenericEvent::NotifyPacketReceived(p) = e {
            let w = view(p);
            match w.ty {
                3 if w.qos == 1 && !g.auto_pub => g.in_q1.push(w.pid),
                3 if w.qos == 2 && !g.auto_pub => g.in_q2.push(w.pid),
                6 if !g.auto_pub => g.in_rel.push(w.pid),
                5 if !g.auto_pub && !(w.rc_present && w.rc >= 128) => { if !g.limbo.contains(&w.pid) { g.limbo.push(w.pid) } }
                _ => {}
            }
        }
        if let GenericEvent::NotifyPacketIdReleased(id) = e {
            let id = *id as u64;
            g.held.retain(|x| *x != id);
            g.limbo.retain(|x| *x != id);
        }
    }
    // a new session resets every identifier without an event: what is no longer in use is no longer held
    if let Some(c) = run.conn.as_ref() {
        let s = c.verif_state();
        let used = |id: u64| id != 0 && !s.pid_free.iter().any(|(l, h)| *l <= id && id <= *h);
        g.held.retain(|x| used(*x));
        g.limbo.retain(|x| used(*x));
        let mut seen: Vec<u64> = Vec::new();
        g.held.retain(|x| if seen.contains(x) { false } else { seen.push(*x); true });
    }
}

/// contract: an id handed to a send must be in use and not owned by an open exchange
fn app_may_use<R: HRole>(run: &Runner<R>, g: &Ghost, id: u64) -> bool {
    let s = run.conn.as_ref().unwrap().verif_state();
    let used = id != 0 && !s.pid_free.iter().any(|(l, h)| *l <= id && id <= *h);
    let owned = s.pid_puback.contains(&id) || s.pid_pubrec.contains(&id) || s.pid_pubcomp.contains(&id)
        || s.pid_suback.contains(&id) || s.pid_unsuback.contains(&id) || g.limbo.contains(&id)
        || run.conn.as_ref().unwrap().get_stored_packets().iter().any(|p| p.packet_id() as u64 == id);
    used && !owned
}

fn with_payload_len(p: &Packet, n: usize) -> Option<Packet> {
    match p {
        GenericPacket::V5_0Publish(x) => {
            let mut b = v5_0::GenericPublish::<Pid>::builder()
                .topic_name(x.topic_name())
                .ok()?
                .qos(x.qos())
                .payload(vec![0x61u8; n])
                .props(x.props().clone());
            if let Some(id) = x.packet_id() {
                b = b.packet_id(id);
            }
            b.dup(x.dup()).retain(x.retain()).build().ok().map(|y| y.into())
        }
        _ => None,
    }
}

fn bytes_of(p: &Packet) -> Vec<u8> {
    p.to_continuous_buffer()
}

pub fn gen_case(rng: &mut Rng, role_n: u64, ver: u64, bias: u64, abuse: bool, st: &mut CaseStats) -> (String, u64) {
    gen_case_pair(rng, role_n, ver, bias, abuse, 0, st)
}

/// pair = 0: one object; 10: reused object vs fresh object (C10); 16: original vs restored object (C16)
pub fn gen_case_pair(rng: &mut Rng, role_n: u64, ver: u64, bias: u64, abuse: bool, pair: u64, st: &mut CaseStats) -> (String, u64) {
    match role_n {
        0 => drive::<role::Client>(rng, role_n, ver, bias, abuse, pair, st),
        1 => drive::<role::Server>(rng, role_n, ver, bias, abuse, pair, st),
        _ => drive::<role::Any>(rng, role_n, ver, bias, abuse, pair, st),
    }
}

type Snapshot = (Vec<GenericStorePacket<Pid>>, Vec<u64>);

/// ids in use that no library set and no stored packet accounts for: the application holds them
fn app_held_ids(s: &mqtt::connection::core::VerifState, store_ids: &[u64]) -> Vec<u64> {
    let mut used: Vec<u64> = Vec::new();
    let mut next: u64 = 1;
    let mut free = s.pid_free.clone();
    free.sort();
    for (l, h) in free {
        let mut id = next;
        while id < l && used.len() < 2000 {
            used.push(id);
            id += 1;
        }
        next = h + 1;
    }
    let mut id = next;
    while id <= IDMAX && used.len() < 2000 {
        used.push(id);
        id += 1;
    }
    used.retain(|id| {
        !(s.pid_puback.contains(id) || s.pid_pubrec.contains(id) || s.pid_pubcomp.contains(id)
            || s.pid_suback.contains(id) || s.pid_unsuback.contains(id) || store_ids.contains(id))
    });
    used
}

/// the switch of a paired case: (C16: export,) transport closed, application-held ids released.
/// Returns the snapshot a restored object is given.
fn pair_switch<R: HRole>(run: &mut Runner<R>, pair: u64, st: &mut CaseStats) -> Snapshot {
    let export = |run: &Runner<R>| -> Snapshot {
        let c = run.conn.as_ref().unwrap();
        let mut q: Vec<u64> = c.get_qos2_publish_handled().iter().map(|x| *x as u64).collect();
        q.sort();
        (c.get_stored_packets(), q)
    };
    let persistent = run.conn.as_ref().unwrap().verif_state().need_store;
    if pair == 10 && run.conn.as_ref().unwrap().verif_state().pingresp_recv_set && run.nops % 3 != 0 {
        run.apply(&Op::SetPingrespTimeout(0), st);
        if run.dead {
            return (Vec::new(), Vec::new());
        }
    }
    let before = export(run);
    run.apply(&Op::Closed, st);
    if run.dead {
        return before;
    }
    let s = run.conn.as_ref().unwrap().verif_state();
    let store_ids: Vec<u64> = run.conn.as_ref().unwrap().get_stored_packets().iter().map(|p| p.packet_id() as u64).collect();
    // C10: the common script starts a NEW session, which resets every identifier; in every other case the
    // application gives back what it still holds.  (In half of the C10 cases it keeps them: they must not survive.)
    let keep = pair == 10 && run.nops % 2 == 0;
    for id in app_held_ids(&s, &store_ids) {
        if keep { break }
        run.apply(&Op::Release(id), st);
        if run.dead {
            return before;
        }
    }
    if pair == 16 && persistent { before } else { export(run) }
}

/// build the second object of a paired case from the first one's log and run the common script
fn pair_second<R: HRole>(a: &Runner<R>, version: Version, role_n: u64, ver: u64, pair: u64, k_a: usize, snap: &Snapshot, st: &mut CaseStats) -> Runner<R> {
    let mut b = Runner::<R>::new(version, role_n, ver);
    b.out.insert(0, a.out[0]);
    for o in &a.log[..k_a.min(a.log.len())] {
        match o {
            Op::SetPingreqInterval(_) | Op::SetPingrespTimeout(_) | Op::SetFlag(_, _) => {
                b.apply(o, st);
            }
            _ => {}
        }
    }
    if pair == 16 {
        // the API prescribes no order for the two halves of the export
        if k_a % 2 == 0 {
            b.apply(&Op::RestorePackets(snap.0.clone()), st);
            b.apply(&Op::RestoreQos2(snap.1.clone()), st);
        } else {
            b.apply(&Op::RestoreQos2(snap.1.clone()), st);
            b.apply(&Op::RestorePackets(snap.0.clone()), st);
        }
    }
    b
}

fn pair_line<R: HRole>(a: &Runner<R>, b: &Runner<R>, pair: u64, k_a: usize, k_b: usize) -> String {
    let mut s = String::with_capacity((a.out.len() + b.out.len()) * 4 + 32);
    s.push_str(&format!("pair {} {} {} {}", pair, k_a, k_b, a.out.len()));
    for x in a.out.iter().chain(b.out.iter()) {
        s.push(' ');
        s.push_str(&x.to_string());
    }
    s
}

/// replay of a paired case: tokens as for replay_case, plus the kind and the switch index
pub fn replay_pair(pair: u64, k_a: usize, hdr: &[u64], ops: &[Op]) -> String {
    fn go<R: HRole>(pair: u64, k_a: usize, hdr: &[u64], ops: &[Op]) -> String {
        let version = match hdr[4] {
            4 => Version::V3_1_1,
            5 => Version::V5_0,
            _ => Version::Undetermined,
        };
        let mut st = CaseStats::new();
        let mut run = Runner::<R>::new(version, hdr[1], hdr[4]);
        run.out.insert(0, hdr[0]);
        // the snapshot is taken where the generator took it: before the Closed that precedes k_a
        // (persistent session) or at k_a
        let mut snap: Snapshot = (Vec::new(), Vec::new());
        let export = |run: &Runner<R>| -> Snapshot {
            let c = run.conn.as_ref().unwrap();
            let mut q: Vec<u64> = c.get_qos2_publish_handled().iter().map(|x| *x as u64).collect();
            q.sort();
            (c.get_stored_packets(), q)
        };
        // find the last Closed before k_a
        let mut close_at = None;
        for (i, o) in ops.iter().enumerate().take(k_a) {
            if let Op::Closed = o {
                close_at = Some(i);
            }
        }
        let mut taken = false;
        for (i, o) in ops.iter().enumerate() {
            if run.dead {
                break;
            }
            if !taken && Some(i) == close_at && pair == 16 && run.conn.as_ref().unwrap().verif_state().need_store {
                snap = export(&run);
                taken = true;
            }
            if !taken && i == k_a {
                snap = export(&run);
                taken = true;
            }
            run.apply(o, &mut st);
        }
        if !taken && !run.dead {
            snap = export(&run);
        }
        let k_a = k_a.min(run.log.len());
        let mut b = pair_second(&run, version, hdr[1], hdr[4], pair, k_a, &snap, &mut st);
        let k_b = b.nops as usize;
        for o in &run.log[k_a..] {
            b.apply(o, &mut st);
        }
        pair_line(&run, &b, pair, k_a, k_b)
    }
    match hdr[1] {
        0 => go::<role::Client>(pair, k_a, hdr, ops),
        1 => go::<role::Server>(pair, k_a, hdr, ops),
        _ => go::<role::Any>(pair, k_a, hdr, ops),
    }
}

/// replay: header (contract role idmax idw version) and explicit ops
pub fn replay_case(hdr: &[u64], ops: &[Op]) -> String {
    fn go<R: HRole>(hdr: &[u64], ops: &[Op]) -> String {
        let version = match hdr[4] {
            4 => Version::V3_1_1,
            5 => Version::V5_0,
            _ => Version::Undetermined,
        };
        let mut st = CaseStats::new();
        let mut run = Runner::<R>::new(version, hdr[1], hdr[4]);
        run.out.insert(0, hdr[0]);
        for o in ops {
            run.apply(o, &mut st);
        }
        run.line()
    }
    match hdr[1] {
        0 => go::<role::Client>(hdr, ops),
        1 => go::<role::Server>(hdr, ops),
        _ => go::<role::Any>(hdr, ops),
    }
}

fn drive<R: HRole>(rng: &mut Rng, role_n: u64, ver: u64, bias: u64, abuse: bool, pair: u64, stats: &mut CaseStats) -> (String, u64) {
    let version = match ver {
        4 => Version::V3_1_1,
        5 => Version::V5_0,
        _ => Version::Undetermined,
    };
    let mut st = CaseStats::new();
    let mut run = Runner::<R>::new(version, role_n, ver);
    run.out.insert(0, if abuse { 0 } else { 1 });
    let mut g = Ghost::default();
    g.as_client = match role_n {
        0 => true,
        1 => false,
        _ => ver != 0 && rng.chance(1, 2),
    };
    g.wire_ver = if ver == 0 { if rng.chance(1, 2) { 4 } else { 5 } } else { ver };
    let small_ids: [u64; 5] = [1, 2, 3, IDMAX - 1, IDMAX];

    // ---- optional session restore on the fresh object (C16) ----
    // (also into an endpoint created with an undetermined version: a broker-side object is given the export before the
    //  client's CONNECT determines its version)
    if rng.chance(if bias == 16 { 2 } else { 1 }, 8) {
        let mut l: Vec<GenericStorePacket<Pid>> = Vec::new();
        let n = rng.range(1, 4);
        for _ in 0..n {
            let id = *rng.pick(&small_ids);
            let pver = if abuse && rng.chance(1, 5) { 9 - g.wire_ver } else { g.wire_ver };
            match rng.below(4) {
                0 => {
                    if let Some(p) = mk_ack(rng, pver, 6, id) {
                        match p {
                            GenericPacket::V3_1_1Pubrel(x) => l.push(GenericStorePacket::V3_1_1Pubrel(x)),
                            GenericPacket::V5_0Pubrel(x) => l.push(GenericStorePacket::V5_0Pubrel(x)),
                            _ => {}
                        }
                    }
                }
                k => {
                    let qos = if rng.chance(1, 8) { 0 } else { k.min(2) as u8 };
                    if let Some(p) = mk_publish(rng, pver, qos, id, true) {
                        match p {
                            GenericPacket::V3_1_1Publish(x) => l.push(GenericStorePacket::V3_1_1Publish(x)),
                            GenericPacket::V5_0Publish(x) => {
                                // exports never hold alias-only publishes
                                if !x.topic_name().is_empty() {
                                    l.push(GenericStorePacket::V5_0Publish(x.remove_topic_alias()))
                                }
                            }
                            _ => {}
                        }
                    }
                }
            }
        }
        run.apply(&Op::RestorePackets(l), &mut st);
        if rng.chance(1, 2) {
            let ids: Vec<u64> = (0..rng.range(0, 3)).map(|_| *rng.pick(&small_ids)).collect();
            let mut ids = ids;
            ids.sort();
            ids.dedup();
            run.apply(&Op::RestoreQos2(ids), &mut st);
        }
    }
    // ---- options before connecting ----
    for which in 6..=10u64 {
        let p = match (which, bias) {
            (7, _) => 2,
            (9, 13) | (10, 13) | (9, 14) => 2,
            (6, 6) => 2,
            _ => 1,
        };
        if rng.chance(p, 4) {
            let b = true;
            if which == 7 {
                g.auto_pub = b;
            }
            run.apply(&Op::SetFlag(which, b), &mut st);
        }
    }
    if rng.chance(if bias == 15 { 3 } else { 1 }, 5) {
        run.apply(&Op::SetPingrespTimeout(*rng.pick(&[0u64, 500, 3000])), &mut st);
    }
    if rng.chance(if bias == 15 { 2 } else { 1 }, 6) {
        let o = *rng.pick(&[None, Some(0u64), Some(7000)]);
        run.apply(&Op::SetPingreqInterval(o), &mut st);
    }

    let mut nops = rng.range(8, 60);
    let switch_at = if pair != 0 { rng.range(3, 30) } else { u64::MAX };
    let mut k_a: Option<usize> = None;
    let mut snap: Snapshot = (Vec::new(), Vec::new());
    let mut guard = 0;
    while run.nops < nops && !run.dead && guard < 400 {
        guard += 1;
        if pair != 0 && k_a.is_none() && run.nops >= switch_at {
            // ---- the first connection ends here; the script common to both objects starts ----
            snap = pair_switch(&mut run, pair, &mut st);
            if run.dead {
                break;
            }
            g.held.clear();
            g.limbo.clear();
            g.in_q1.clear();
            g.in_q2.clear();
            g.in_rel.clear();
            k_a = Some(run.nops as usize);
            nops = run.nops + rng.range(4, 30);
            let wv = g.wire_ver;
            if pair == 10 {
                // an object of role Any may be the other side on its next connection
                if role_n == 2 && ver != 0 && rng.chance(1, 2) { g.as_client = !g.as_client; }
                // a new session: clean start, or (client) session not present in the CONNACK
                if g.as_client {
                    if rng.chance(3, 4) {
                        run.apply(&Op::Send(mk_connect_opts(rng, wv, Some(true), None)), &mut st);
                    } else {
                        run.apply(&Op::Send(mk_connect_opts(rng, wv, Some(false), None)), &mut st);
                        let b = bytes_of(&mk_connack_sp(rng, wv, false));
                        feed(&mut run, rng, b, &mut g, &mut st, false);
                    }
                } else {
                    let b = bytes_of(&mk_connect_opts(rng, wv, Some(true), None));
                    feed(&mut run, rng, b, &mut g, &mut st, false);
                }
            } else {
                // the session is resumed
                if g.as_client {
                    run.apply(&Op::Send(mk_connect_opts(rng, wv, Some(false), Some(100))), &mut st);
                    let b = bytes_of(&mk_connack_sp(rng, wv, true));
                    feed(&mut run, rng, b, &mut g, &mut st, false);
                } else {
                    let b = bytes_of(&mk_connect_opts(rng, wv, Some(false), Some(100)));
                    feed(&mut run, rng, b, &mut g, &mut st, false);
                    if !run.dead {
                        run.apply(&Op::Send(mk_connack_sp(rng, wv, true)), &mut st);
                    }
                }
            }
            if !run.dead {
                observe(&run, &mut g);
            }
            continue;
        }
        let s = run.conn.as_ref().unwrap().verif_state();
        // contract: the transport is reported closed right after a close request
        if contains_close(&run.last_events) && (!abuse || rng.chance(1, 2)) {
            run.apply(&Op::Closed, &mut st);
            observe(&run, &mut g);
            g.in_q1.clear();
            g.in_q2.clear();
            g.in_rel.clear();
            continue;
        }
        let wv = match run.conn.as_ref().unwrap().get_protocol_version() {
            Version::V3_1_1 => 4,
            Version::V5_0 => 5,
            Version::Undetermined => g.wire_ver,
        };
        g.wire_ver = wv;
        let roll = rng.below(100);
        // ---- things possible in any state ----
        if roll < 3 {
            if (bias == 6 || bias == 8 || bias == 16) && g.as_client && s.status == 2 && rng.chance(1, 2) {
                // the connection is lost with a SUBSCRIBE / UNSUBSCRIBE still unanswered
                run.apply(&Op::Acquire, &mut st);
                if let Some(id) = run.last_acquired.take() {
                    if let Some(p) = mk_sub(wv, id, rng.chance(1, 2)) {
                        run.apply(&Op::Send(p), &mut st);
                        observe(&run, &mut g);
                    }
                }
                if run.dead {
                    continue;
                }
            }
            run.apply(&Op::Closed, &mut st);
            observe(&run, &mut g);
            g.in_q1.clear();
            g.in_q2.clear();
            g.in_rel.clear();
            continue;
        }
        if roll < 5 {
            st.garbage += 1;
            let n = rng.range(1, 10);
            let b: Vec<u8> = (0..n).map(|_| rng.below(256) as u8).collect();
            feed(&mut run, rng, b, &mut g, &mut st, abuse);
            continue;
        }
        if roll < 9 {
            // timers: only armed ones (contract); abuse fires any
            let mut armed = Vec::new();
            if s.pingreq_send_set { armed.push(0u64) }
            if s.pingreq_recv_set { armed.push(1) }
            if s.pingresp_recv_set { armed.push(2) }
            if abuse && s.protocol_version != Version::Undetermined && rng.chance(1, 3) {
                armed = vec![0, 1, 2];
            }
            if !armed.is_empty() {
                let k = *rng.pick(&armed);
                run.apply(&Op::Timer(k), &mut st);
                observe(&run, &mut g);
                continue;
            }
        }
        if roll < 11 {
            match rng.below(4) {
                0 => {
                    let o = *rng.pick(&[None, Some(0u64), Some(7000), Some(11)]);
                    run.apply(&Op::SetPingreqInterval(o), &mut st);
                }
                1 => {
                    run.apply(&Op::SetPingrespTimeout(*rng.pick(&[0u64, 500])), &mut st);
                }
                _ => {
                    let which = rng.range(6, 10);
                    let b = rng.chance(2, 3);
                    // paired cases: offline publishing (which turns the session persistent on the spot)
                    // is an option configured between connections, not in the middle of one
                    if pair != 0 && which == 6 && b && s.status != 0 {
                        continue;
                    }
                    if which == 7 {
                        g.auto_pub = b;
                    }
                    run.apply(&Op::SetFlag(which, b), &mut st);
                }
            }
            continue;
        }
        if roll == 15 && (bias == 7 || bias == 13 || bias == 6 || rng.chance(1, 3)) {
            // the handled-id set is REPLACED by what the application restores, at any point
            let mut ids: Vec<u64> = (0..rng.range(0, 3)).map(|_| *rng.pick(&small_ids)).collect();
            ids.sort();
            ids.dedup();
            run.apply(&Op::RestoreQos2(ids), &mut st);
            observe(&run, &mut g);
            g.in_q2.clear();
            continue;
        }
        if roll < 15 {
            // id management
            match rng.below(5) {
                0 | 1 => {
                    run.apply(&Op::Acquire, &mut st);
                    if let Some(id) = run.last_acquired.take() {
                        g.held.retain(|x| *x != id);
                        g.held.push(id);
                    }
                }
                2 => {
                    let id = *rng.pick(&small_ids);
                    run.apply(&Op::Register(id), &mut st);
                    if run.out.len() > 0 && !g.held.contains(&id) {
                        // registered successfully iff the return value was 1: re-read from the state
                        let used_now = !run.conn.as_ref().unwrap().verif_state().pid_free.iter().any(|(l, h)| *l <= id && id <= *h);
                        let owned = s.pid_puback.contains(&id) || s.pid_pubrec.contains(&id) || s.pid_pubcomp.contains(&id)
                            || s.pid_suback.contains(&id) || s.pid_unsuback.contains(&id) || g.limbo.contains(&id);
                        let was_free = s.pid_free.iter().any(|(l, h)| *l <= id && id <= *h);
                        if used_now && was_free && !owned {
                            g.held.push(id);
                        }
                    }
                }
                3 => {
                    // release: an id the application holds (contract); abuse: anything incl. 0 and max
                    if abuse {
                        let id = *rng.pick(&[0u64, 1, 2, IDMAX, 40000 % (IDMAX + 1)]);
                        run.apply(&Op::Release(id), &mut st);
                        observe(&run, &mut g);
                    } else if !g.held.is_empty() {
                        let id = g.held.remove(rng.below(g.held.len() as u64) as usize);
                        if app_may_use(&run, &g, id) {
                            run.apply(&Op::Release(id), &mut st);
                        }
                    } else {
                        let id = *rng.pick(&[0u64, IDMAX]);
                        let free = id == 0 || s.pid_free.iter().any(|(l, h)| *l <= id && id <= *h);
                        if free {
                            run.apply(&Op::Release(id), &mut st);
                        }
                    }
                }
                _ => {
                    let stored = run.conn.as_ref().unwrap().get_stored_packets();
                    let id = if !stored.is_empty() && rng.chance(3, 4) {
                        stored[rng.below(stored.len() as u64) as usize].packet_id() as u64
                    } else {
                        *rng.pick(&[0u64, 1, 2, IDMAX])
                    };
                    run.apply(&Op::Erase(id), &mut st);
                    observe(&run, &mut g);
                }
            }
            continue;
        }
        // ---- state-dependent ----
        match s.status {
            0 => {
                // disconnected
                if (bias == 6 || bias == 8 || bias == 16) && s.need_store && rng.chance(1, 2) {
                    // dwell on a closed persistent session: offline publishes, identifier traffic, and now and then
                    // the transport reported closed AGAIN before the next CONNECT
                    if rng.chance(1, 4) {
                        run.apply(&Op::Closed, &mut st);
                        observe(&run, &mut g);
                        g.in_q1.clear();
                        g.in_q2.clear();
                        g.in_rel.clear();
                        continue;
                    }
                    local_send(&mut run, rng, &mut g, &s, wv, bias, &mut st, &small_ids);
                } else if g.as_client {
                    if rng.chance(3, 4) {
                        let p = mk_connect(rng, wv);
                        run.apply(&Op::Send(p), &mut st);
                    } else {
                        local_send(&mut run, rng, &mut g, &s, wv, bias, &mut st, &small_ids);
                    }
                } else if rng.chance(3, 4) {
                    let cv = if ver == 0 && rng.chance(1, 10) { 3 } else { wv };
                    let stored = run.conn.as_ref().unwrap().get_stored_packets();
                    let cp = if cv == 5 && !stored.is_empty() && (bias == 6 || bias == 14) && rng.chance(1, 3) {
                        let sp: Packet = stored[rng.below(stored.len() as u64) as usize].clone().into();
                        let m = (sp.size() as i64 + rng.range(0, 2) as i64 - 1).max(1) as u32;
                        mk_connect_mps(rng, m)
                    } else {
                        mk_connect(rng, if cv == 3 { 4 } else { cv })
                    };
                    let mut b = bytes_of(&cp);
                    if cv == 3 && b.len() > 8 {
                        b[8] = *rng.pick(&[3u8, 3, 6, 0, 0x84, 0x85]); // unsupported protocol level
                    }
                    let b = if rng.chance(1, 12) { mutate(rng, b) } else { b };
                    feed(&mut run, rng, b, &mut g, &mut st, abuse);
                } else if rng.chance(1, 2) {
                    local_send(&mut run, rng, &mut g, &s, wv, bias, &mut st, &small_ids);
                } else {
                    peer_traffic(&mut run, rng, &mut g, &s, wv, bias, &mut st, abuse, &small_ids);
                }
            }
            1 => {
                // connecting
                if g.as_client {
                    if rng.chance(3, 4) {
                        let mut p = mk_connack(rng, wv);
                        if bias == 6 || bias == 12 {
                            // favour resumed sessions
                            if rng.chance(1, 2) {
                                p = if wv == 4 {
                                    v3_1_1::Connack::builder().session_present(true).return_code(ConnectReturnCode::Accepted).build().unwrap().into()
                                } else {
                                    let mut props: Vec<Property> = Vec::new();
                                    if rng.chance(1, 2) {
                                        props.push(mqtt::packet::ReceiveMaximum::new(*rng.pick(&[1u16, 2, 3])).unwrap().into());
                                    }
                                    v5_0::Connack::builder().session_present(true).reason_code(ConnectReasonCode::Success).props(props).build().unwrap().into()
                                };
                            }
                        }
                        // resume with a Maximum Packet Size right at the size of a stored packet (limit is inclusive)
                        let stored = run.conn.as_ref().unwrap().get_stored_packets();
                        if wv == 5 && !stored.is_empty() && (bias == 6 || bias == 14) && rng.chance(1, 3) {
                            let sp: Packet = stored[rng.below(stored.len() as u64) as usize].clone().into();
                            let m = (sp.size() as i64 + rng.range(0, 2) as i64 - 1).max(1) as u32;
                            p = mk_connack_mps(rng, true, m);
                        }
                        let b = bytes_of(&p);
                        let b = if rng.chance(1, 15) { mutate(rng, b) } else { b };
                        if !stored.is_empty() {
                            st.resumes += 1;
                        }
                        feed(&mut run, rng, b, &mut g, &mut st, abuse);
                    } else if rng.chance(1, 2) {
                        local_send(&mut run, rng, &mut g, &s, wv, bias, &mut st, &small_ids);
                    } else {
                        peer_traffic(&mut run, rng, &mut g, &s, wv, bias, &mut st, abuse, &small_ids);
                    }
                } else if (!s.pid_puback.is_empty() || !s.pid_pubrec.is_empty() || !s.pid_pubcomp.is_empty()) && rng.chance(1, 3) {
                    // exchanges of the previous connection are still open: the peer may answer them before our CONNACK is out
                    peer_traffic(&mut run, rng, &mut g, &s, wv, bias, &mut st, abuse, &small_ids);
                } else if rng.chance(if bias == 13 { 1 } else { 3 }, if bias == 13 { 2 } else { 4 }) {
                    let p = mk_connack(rng, wv);
                    run.apply(&Op::Send(p), &mut st);
                } else if rng.chance(1, 2) {
                    local_send(&mut run, rng, &mut g, &s, wv, bias, &mut st, &small_ids);
                } else {
                    peer_traffic(&mut run, rng, &mut g, &s, wv, bias, &mut st, abuse, &small_ids);
                }
            }
            _ => {
                if rng.chance(1, 2) {
                    local_send(&mut run, rng, &mut g, &s, wv, bias, &mut st, &small_ids);
                } else {
                    peer_traffic(&mut run, rng, &mut g, &s, wv, bias, &mut st, abuse, &small_ids);
                }
            }
        }
        observe(&run, &mut g);
    }
    if pair != 0 {
        if k_a.is_none() && !run.dead {
            snap = pair_switch(&mut run, pair, &mut st);
            k_a = Some(run.nops as usize);
        }
        let k_a = k_a.unwrap_or(run.log.len()).min(run.log.len());
        let mut b = pair_second(&run, version, role_n, ver, pair, k_a, &snap, &mut st);
        let k_b = b.nops as usize;
        for o in &run.log[k_a..] {
            b.apply(o, &mut st);
        }
        stats.merge(&st);
        return (pair_line(&run, &b, pair, k_a, k_b), run.nops);
    }
    stats.merge(&st);
    (run.line(), run.nops)
}

#[allow(clippy::too_many_arguments)]
fn local_send<R: HRole>(
    run: &mut Runner<R>, rng: &mut Rng, g: &mut Ghost, s: &mqtt::connection::core::VerifState, wv: u64, bias: u64,
    st: &mut CaseStats, small_ids: &[u64; 5],
) {
    let roll = rng.below(100);
    // manual responses owed to the peer come first when there are some
    if !g.auto_pub && roll < 30 {
        if let Some(id) = g.in_q1.pop() {
            if let Some(p) = mk_ack(rng, wv, 4, id) {
                run.apply(&Op::Send(p), st);
            }
            return;
        }
        if let Some(id) = g.in_q2.pop() {
            if let Some(p) = mk_ack(rng, wv, 5, id) {
                run.apply(&Op::Send(p), st);
            }
            return;
        }
        if let Some(id) = g.in_rel.pop() {
            if let Some(p) = mk_ack(rng, wv, 7, id) {
                run.apply(&Op::Send(p), st);
            }
            return;
        }
    }
    if !g.limbo.is_empty() && roll < 45 {
        let id = g.limbo.remove(0);
        let sn = run.conn.as_ref().unwrap().verif_state();
        let used = !sn.pid_free.iter().any(|(l, h)| *l <= id && id <= *h);
        let open = sn.pid_pubcomp.contains(&id) || sn.pid_puback.contains(&id) || sn.pid_pubrec.contains(&id)
            || sn.pid_suback.contains(&id) || sn.pid_unsuback.contains(&id)
            || run.conn.as_ref().unwrap().get_stored_packets().iter().any(|p| p.packet_id() as u64 == id);
        // the exchange under this identifier is still open (PUBREL owed): it is not one the application may hand to a new send
        g.held.retain(|x| *x != id);
        if used && !open {
            if let Some(p) = mk_ack(rng, wv, 6, id) {
                run.apply(&Op::Send(p), st);
            }
        }
        return;
    }
    let pub_w = if bias == 12 || bias == 13 || bias == 14 || bias == 6 { 70 } else { 50 };
    if roll < pub_w {
        // publish
        let qos = *rng.pick(&[0u8, 1, 1, 2, 2]);
        let mut id = 0u64;
        if qos > 0 {
            if !g.held.is_empty() && rng.chance(1, 2) {
                id = g.held.remove(0);
                if !app_may_use(run, g, id) {
                    id = 0;
                }
            } else if rng.chance(1, 20) {
                // an id nobody acquired (refused as invalid) — only a free one, never one in flight
                let cand = *rng.pick(small_ids);
                if s.pid_free.iter().any(|(l, h)| *l <= cand && cand <= *h) {
                    id = cand;
                }
            }
            if id == 0 {
                run.apply(&Op::Acquire, st);
                match run.last_acquired.take() {
                    Some(x) => id = x,
                    None => return,
                }
            }
        }
        // bias 14: a topic with a hand-registered alias, then the same topic without alias in a packet that only
        // just fits: automatic replacement / mapping swaps the short topic for the 3-byte alias property (+1..2 bytes)
        // bias 13: one topic registered under two aliases in DESCENDING order, the higher alias then re-bound to another
        // topic, and the first topic published again with automatic replacement: it must go out under the alias it still has
        if bias == 13 && wv == 5 && qos == 0 && s.status == 2 && rng.chance(1, 6) {
            if let Some((max, _, _, _)) = s.topic_alias_send.as_ref() {
                if *max >= 2 {
                    let hi = *max;
                    let lo = 1 + rng.below((hi - 1) as u64) as u16;
                    let mk = |topic: &str, alias: Option<u16>| -> Option<Packet> {
                        let b = v5_0::GenericPublish::<Pid>::builder().topic_name(topic).ok()?.qos(Qos::AtMostOnce);
                        let b = match alias { Some(a) => b.props(vec![mqtt::packet::TopicAlias::new(a).unwrap().into()]), None => b };
                        b.build().ok().map(|x| x.into())
                    };
                    for p in [mk("t/1", Some(hi)), mk("t/1", Some(lo)), mk("t/22", Some(hi))].into_iter().flatten() {
                        run.apply(&Op::Send(p), st);
                    }
                    run.apply(&Op::SetFlag(10, true), st);
                    if let Some(p) = mk("t/1", None) { run.apply(&Op::Send(p), st); }
                    if let Some(p) = mk("t/22", None) { run.apply(&Op::Send(p), st); }
                    return;
                }
            }
        }
        if bias == 14 && wv == 5 && qos == 0 && s.topic_alias_send.is_some() && rng.chance(1, 4) {
            let lim = s.maximum_packet_size_send as usize;
            if lim >= 16 && lim < 400 {
                if rng.chance(1, 2) { run.apply(&Op::SetFlag(10, true), st); run.apply(&Op::SetFlag(9, false), st); }
                let reg: Option<Packet> = v5_0::GenericPublish::<Pid>::builder().topic_name("a").ok()
                    .and_then(|b| b.qos(Qos::AtMostOnce).props(vec![mqtt::packet::TopicAlias::new(1).unwrap().into()]).build().ok()).map(|x| x.into());
                if let Some(r) = reg { run.apply(&Op::Send(r), st); }
                let base: Option<Packet> = v5_0::GenericPublish::<Pid>::builder().topic_name("a").ok()
                    .and_then(|b| b.qos(Qos::AtMostOnce).payload(vec![0x61u8; 1]).build().ok()).map(|x| x.into());
                if let Some(b) = base {
                    let target = lim - rng.below(3) as usize;
                    let want = (1 + target).saturating_sub(b.size());
                    let p2 = with_payload_len(&b, want).unwrap_or(b);
                    run.apply(&Op::Send(p2), st);
                }
                return;
            }
        }
        if let Some(p) = mk_publish(rng, wv, qos, id, false) {
            // bias 14: sizes right at the peer's Maximum Packet Size (limit-6 .. limit+1)
            let lim = s.maximum_packet_size_send as usize;
            let p = if bias == 14 && wv == 5 && lim >= 12 && lim < 400 && rng.chance(2, 3) {
                let target = lim + 1 - rng.below(8) as usize;
                let cur = p.size();
                let pl = match &p { GenericPacket::V5_0Publish(x) => x.payload().len(), _ => 0 };
                let want = (pl + target).saturating_sub(cur);
                with_payload_len(&p, want).unwrap_or(p)
            } else {
                p
            };
            if wv == 5 && rng.chance(1, 25) {
                run.apply(&Op::Regulate(p.clone()), st);
            }
            if rng.chance(1, 5) { run.apply(&Op::CheckedSend(p), st); } else { run.apply(&Op::Send(p), st); }
        } else if qos > 0 {
            g.held.push(id);
        }
        return;
    }
    if roll < pub_w + 12 && g.as_client {
        run.apply(&Op::Acquire, st);
        if let Some(id) = run.last_acquired.take() {
            if let Some(p) = mk_sub(wv, id, rng.chance(1, 3)) {
                run.apply(&Op::Send(p), st);
            }
        }
        return;
    }
    // the rest: pings, disconnect, auth, acks the peer does not expect, packets of the other role
    let ty = *rng.pick(&[12u64, 12, 13, 14, 15, 4, 5, 7, 9, 11, 1, 2, 6]);
    let p = match ty {
        12 | 13 | 14 => mk_simple(wv, ty),
        15 => if wv == 5 { mk_simple(5, 15) } else { mk_simple(4, 12) },
        1 => Some(mk_connect(rng, wv)),
        2 => Some(mk_connack(rng, wv)),
        6 => {
            // PUBREL only for an exchange that awaits it (contract); otherwise skip
            None
        }
        _ => { let id = *rng.pick(small_ids); mk_ack(rng, wv, ty, id) }
    };
    if let Some(p) = p {
        // a packet of the other protocol version now and then
        if rng.chance(1, 40) {
            if let Some(q) = mk_simple(9 - wv, 12) {
                run.apply(&Op::Send(q), st);
                return;
            }
        }
        run.apply(&Op::Send(p), st);
    }
}

#[allow(clippy::too_many_arguments)]
fn peer_traffic<R: HRole>(
    run: &mut Runner<R>, rng: &mut Rng, g: &mut Ghost, s: &mqtt::connection::core::VerifState, wv: u64, bias: u64,
    st: &mut CaseStats, abuse: bool, small_ids: &[u64; 5],
) {
    if rng.chance(1, 40) {
        // an acknowledgement-type frame with packet identifier 0 on the wire (cannot be built: crafted bytes),
        // alone or followed by a reason-code byte / an empty property section
        let fh = *rng.pick(&[0x40u8, 0x50, 0x62, 0x70, 0x90, 0xB0]);
        let mut b = vec![fh, 0];
        b.extend_from_slice(&vec![0u8; IDW as usize]);
        match rng.below(4) {
            0 => {}
            1 => b.push(*rng.pick(&[0x00u8, 0x92, 0x80, 0x10])),
            2 => { b.push(*rng.pick(&[0x00u8, 0x92])); b.push(0) }
            _ => b.push(0xFF),
        }
        b[1] = (b.len() - 2) as u8;
        feed(run, rng, b, g, st, abuse);
        return;
    }
    // bias 13: the peer binds an alias, binds the SAME alias to another topic, then uses the alias alone
    if bias == 13 && wv == 5 && s.status == 2 && rng.chance(1, 6) {
        if let Some((max, _)) = &s.topic_alias_recv {
            if *max >= 1 {
                let a = rng.range(1, (*max as u64).min(2)) as u16;
                let i = rng.below(TOPICS.len() as u64) as usize;
                let t1 = TOPICS[i];
                let t2 = TOPICS[(i + 1 + rng.below(TOPICS.len() as u64 - 1) as usize) % TOPICS.len()];
                let mk = |t: &str| -> Option<Packet> {
                    v5_0::GenericPublish::<Pid>::builder().topic_name(t).ok()?.qos(Qos::AtMostOnce).payload(vec![0x61u8; 1])
                        .props(vec![mqtt::packet::TopicAlias::new(a).unwrap().into()]).build().ok().map(|x| x.into())
                };
                let seq: Vec<&str> = if rng.chance(1, 2) { vec![t1, t2, ""] } else { vec![t2, ""] };
                for t in seq {
                    if run.dead { return }
                    if let Some(p) = mk(t) {
                        feed(run, rng, bytes_of(&p), g, st, abuse);
                    }
                }
                return;
            }
        }
    }
    let roll = rng.below(100);
    let pick_from = |rng: &mut Rng, set: &Vec<u64>| -> Option<u64> {
        if set.is_empty() { None } else { Some(set[rng.below(set.len() as u64) as usize]) }
    };
    let p: Option<Packet> = if roll < 35 {
        // acknowledgements of what we have in flight (or nearly)
        let mut cands: Vec<(u64, u64)> = Vec::new();
        for id in &s.pid_puback { cands.push((4, *id)) }
        for id in &s.pid_pubrec { cands.push((5, *id)) }
        for id in &s.pid_pubcomp { cands.push((7, *id)) }
        for id in &s.pid_suback { cands.push((9, *id)) }
        for id in &s.pid_unsuback { cands.push((11, *id)) }
        if cands.is_empty() || rng.chance(1, 8) {
            { let ty = *rng.pick(&[4u64, 5, 7, 9, 11]); let id = *rng.pick(small_ids); mk_ack(rng, wv, ty, id) }
        } else {
            let (ty, id) = cands[rng.below(cands.len() as u64) as usize];
            let ty = if rng.chance(1, 10) { *rng.pick(&[4u64, 5, 7]) } else { ty };
            mk_ack(rng, wv, ty, id)
        }
    } else if roll < 70 {
        let qos = *rng.pick(&[0u8, 1, 2, 2]);
        let id = if bias == 7 || bias == 13 { *rng.pick(&[1u64, 2]) } else { *rng.pick(small_ids) };
        // bias 13: retransmissions of handled QoS 2 publishes (they may carry alias bindings too)
        let id = if bias == 13 && !s.qos2_publish_handled.is_empty() && rng.chance(1, 3) { s.qos2_publish_handled[0] } else { id };
        let id = if rng.chance(1, 30) { 0 } else { id };
        if id == 0 && qos > 0 {
            // packet id 0 on the wire: cannot be built, craft the bytes
            let mut b = vec![0x30u8 | (qos << 1), 0, 0, 1, b'a'];
            b.extend_from_slice(&vec![0u8; IDW as usize]);
            if wv == 5 { b.push(0) }
            b[1] = (b.len() - 2) as u8;
            feed(run, rng, b, g, st, abuse);
            return;
        }
        { let dup = rng.chance(1, 3); mk_publish(rng, wv, qos, id, dup) }
    } else if roll < 80 {
        let id = pick_from(rng, &s.qos2_publish_handled).filter(|_| rng.chance(4, 5)).unwrap_or(*rng.pick(small_ids));
        mk_ack(rng, wv, 6, id)
    } else if roll < 90 {
        let ty = *rng.pick(&[12u64, 13, 14, 15, 12, 13]);
        if ty == 15 && wv == 4 { mk_simple(4, 13) } else { mk_simple(wv, ty) }
    } else if roll < 95 {
        mk_sub(wv, *rng.pick(small_ids), rng.chance(1, 2))
    } else if rng.chance(1, 2) {
        Some(mk_connect(rng, wv))
    } else {
        Some(mk_connack(rng, wv))
    };
    if let Some(p) = p {
        let mut b = bytes_of(&p);
        if rng.chance(1, 12) {
            b = mutate(rng, b);
        }
        if rng.chance(1, 10) {
            // a second frame in the same buffer
            if let Some(q) = mk_simple(wv, if g.as_client { 13 } else { 12 }) {
                b.extend(bytes_of(&q));
            }
        }
        feed(run, rng, b, g, st, abuse);
    }
}

// ------------------------------------------------------------------------------------------
// exhaustive send-gating matrix (C11): role x version x status x 29 kinds x {persistent, offline}

fn kind_packet(rng: &mut Rng, pver: u64, ty: u64, pid: u64) -> Option<Packet> {
    match ty {
        1 => Some(mk_connect(rng, pver)),
        2 => Some(if pver == 4 {
            v3_1_1::Connack::builder().session_present(false).return_code(ConnectReturnCode::Accepted).build().unwrap().into()
        } else {
            v5_0::Connack::builder().session_present(false).reason_code(ConnectReasonCode::Success).build().unwrap().into()
        }),
        3 => {
            if pver == 4 {
                v3_1_1::GenericPublish::<Pid>::builder().topic_name("t/1").ok()?.qos(Qos::AtLeastOnce).packet_id(pid as Pid).payload(vec![1u8]).build().ok().map(|x| x.into())
            } else {
                v5_0::GenericPublish::<Pid>::builder().topic_name("t/1").ok()?.qos(Qos::AtLeastOnce).packet_id(pid as Pid).payload(vec![1u8]).build().ok().map(|x| x.into())
            }
        }
        4 | 5 | 6 | 7 | 9 | 11 => {
            // plain acknowledgement without reason code
            let id = pid as Pid;
            Some(if pver == 4 {
                match ty {
                    4 => v3_1_1::GenericPuback::<Pid>::builder().packet_id(id).build().ok()?.into(),
                    5 => v3_1_1::GenericPubrec::<Pid>::builder().packet_id(id).build().ok()?.into(),
                    6 => v3_1_1::GenericPubrel::<Pid>::builder().packet_id(id).build().ok()?.into(),
                    7 => v3_1_1::GenericPubcomp::<Pid>::builder().packet_id(id).build().ok()?.into(),
                    9 => v3_1_1::GenericSuback::<Pid>::builder().packet_id(id).return_codes(vec![SubackReturnCode::SuccessMaximumQos0]).build().ok()?.into(),
                    _ => v3_1_1::GenericUnsuback::<Pid>::builder().packet_id(id).build().ok()?.into(),
                }
            } else {
                match ty {
                    4 => v5_0::GenericPuback::<Pid>::builder().packet_id(id).build().ok()?.into(),
                    5 => v5_0::GenericPubrec::<Pid>::builder().packet_id(id).build().ok()?.into(),
                    6 => v5_0::GenericPubrel::<Pid>::builder().packet_id(id).build().ok()?.into(),
                    7 => v5_0::GenericPubcomp::<Pid>::builder().packet_id(id).build().ok()?.into(),
                    9 => v5_0::GenericSuback::<Pid>::builder().packet_id(id).reason_codes(vec![SubackReasonCode::GrantedQos0]).build().ok()?.into(),
                    _ => v5_0::GenericUnsuback::<Pid>::builder().packet_id(id).reason_codes(vec![UnsubackReasonCode::Success]).build().ok()?.into(),
                }
            })
        }
        8 => mk_sub(pver, pid, false),
        10 => mk_sub(pver, pid, true),
        12 | 13 | 14 => mk_simple(pver, ty),
        _ => if pver == 5 { mk_simple(5, 15) } else { None },
    }
}

fn matrix_cell<R: HRole>(role_n: u64, cver: u64, status: u64, as_client: bool, persistent: bool, offline: bool, pver: u64, ty: u64, checked: bool, st: &mut CaseStats) -> Option<String> {
    let version = match cver {
        4 => Version::V3_1_1,
        5 => Version::V5_0,
        _ => Version::Undetermined,
    };
    let mut rng = Rng::new(7);
    let mut run = Runner::<R>::new(version, role_n, cver);
    run.out.insert(0, 1);
    if offline {
        run.apply(&Op::SetFlag(6, true), st);
    }
    let wire = if cver == 0 { 4 } else { cver };
    let connect: Packet = if wire == 4 {
        v3_1_1::Connect::builder().client_id("cid").unwrap().clean_session(!persistent).keep_alive(0u16).build().unwrap().into()
    } else {
        let mut props: Vec<Property> = Vec::new();
        if persistent {
            props.push(mqtt::packet::SessionExpiryInterval::new(100).unwrap().into());
        }
        v5_0::Connect::builder().client_id("cid").unwrap().clean_start(!persistent).keep_alive(0u16).props(props).build().unwrap().into()
    };
    let connack: Packet = if wire == 4 {
        v3_1_1::Connack::builder().session_present(false).return_code(ConnectReturnCode::Accepted).build().unwrap().into()
    } else {
        v5_0::Connack::builder().session_present(false).reason_code(ConnectReasonCode::Success).build().unwrap().into()
    };
    if status >= 1 {
        if as_client {
            run.apply(&Op::Send(connect.clone()), st);
        } else {
            run.apply(&Op::Recv(bytes_of(&connect)), st);
        }
    }
    if status >= 2 {
        if as_client {
            run.apply(&Op::Recv(bytes_of(&connack)), st);
        } else {
            run.apply(&Op::Send(connack.clone()), st);
        }
    }
    let reached = run.conn.as_ref().unwrap().verif_state().status as u64;
    if reached != status {
        return None; // this cell is not reachable for the role (e.g. a client cannot receive CONNECT)
    }
    let mut pid = 1u64;
    if matches!(ty, 3 | 6 | 8 | 10) {
        run.apply(&Op::Acquire, st);
        pid = run.last_acquired.take().unwrap_or(1);
    }
    let p = kind_packet(&mut rng, pver, ty, pid)?;
    run.apply(&if checked { Op::CheckedSend(p) } else { Op::Send(p) }, st);
    Some(run.line())
}

/// cells with an exchange IN FLIGHT under the identifier the refused packet carries: a persistent session with
/// a stored QoS 1/2 PUBLISH (or PUBREL), the transport closed, then a send of the same kind with the same
/// identifier in the given status.  A refusal may release the identifier but must leave the stored exchange alone.
fn held_cell<R: HRole>(role_n: u64, cver: u64, as_client: bool, pver: u64, qos: u8, ty: u64, reconnecting: bool, st: &mut CaseStats) -> Option<String> {
    let version = if cver == 4 { Version::V3_1_1 } else { Version::V5_0 };
    let mut rng = Rng::new(13);
    let mut run = Runner::<R>::new(version, role_n, cver);
    run.out.insert(0, 1);
    let connect: Packet = if cver == 4 {
        v3_1_1::Connect::builder().client_id("cid").unwrap().clean_session(false).keep_alive(0u16).build().unwrap().into()
    } else {
        v5_0::Connect::builder().client_id("cid").unwrap().clean_start(false).keep_alive(0u16)
            .props(vec![mqtt::packet::SessionExpiryInterval::new(100).unwrap().into()]).build().unwrap().into()
    };
    let connack: Packet = if cver == 4 {
        v3_1_1::Connack::builder().session_present(false).return_code(ConnectReturnCode::Accepted).build().unwrap().into()
    } else {
        v5_0::Connack::builder().session_present(false).reason_code(ConnectReasonCode::Success).build().unwrap().into()
    };
    if as_client { run.apply(&Op::Send(connect.clone()), st); run.apply(&Op::Recv(bytes_of(&connack)), st); }
    else { run.apply(&Op::Recv(bytes_of(&connect)), st); run.apply(&Op::Send(connack.clone()), st); }
    if run.conn.as_ref().unwrap().verif_state().status as u64 != 2 { return None }
    run.apply(&Op::Acquire, st);
    let pid = run.last_acquired.take()?;
    let first = mk_publish(&mut rng, cver, qos, pid, false)?;
    run.apply(&Op::Send(first), st);
    run.apply(&Op::Closed, st);
    if reconnecting {
        if as_client { run.apply(&Op::Send(connect.clone()), st); } else { run.apply(&Op::Recv(bytes_of(&connect)), st); }
    }
    let p = kind_packet(&mut rng, pver, ty, pid)?;
    run.apply(&Op::Send(p), st);
    Some(run.line())
}

/// cells with an INBOUND exchange open under the identifier the refused response carries: a persistent session,
/// a QoS 1/2 PUBLISH received and not yet answered, the transport closed (and possibly a reconnect under way),
/// then the response (PUBACK / PUBREC success / PUBREC failure / PUBCOMP) is handed to send().  A refusal must
/// leave the inbound exchange (handled-id set, Receive Maximum account) as it was.
fn inbound_cell<R: HRole>(role_n: u64, cver: u64, as_client: bool, qos: u8, resp: u64, reconnecting: bool, st: &mut CaseStats) -> Option<String> {
    let version = if cver == 4 { Version::V3_1_1 } else { Version::V5_0 };
    let mut rng = Rng::new(17);
    let mut run = Runner::<R>::new(version, role_n, cver);
    run.out.insert(0, 1);
    let connect: Packet = if cver == 4 {
        v3_1_1::Connect::builder().client_id("cid").unwrap().clean_session(false).keep_alive(0u16).build().unwrap().into()
    } else {
        v5_0::Connect::builder().client_id("cid").unwrap().clean_start(false).keep_alive(0u16)
            .props(vec![mqtt::packet::SessionExpiryInterval::new(100).unwrap().into(), mqtt::packet::ReceiveMaximum::new(2).unwrap().into()]).build().unwrap().into()
    };
    let connack: Packet = if cver == 4 {
        v3_1_1::Connack::builder().session_present(false).return_code(ConnectReturnCode::Accepted).build().unwrap().into()
    } else {
        v5_0::Connack::builder().session_present(false).reason_code(ConnectReasonCode::Success)
            .props(vec![mqtt::packet::ReceiveMaximum::new(2).unwrap().into()]).build().unwrap().into()
    };
    if as_client { run.apply(&Op::Send(connect.clone()), st); run.apply(&Op::Recv(bytes_of(&connack)), st); }
    else { run.apply(&Op::Recv(bytes_of(&connect)), st); run.apply(&Op::Send(connack.clone()), st); }
    if run.conn.as_ref().unwrap().verif_state().status as u64 != 2 { return None }
    let pid = 1u64;
    let inbound = mk_publish(&mut rng, cver, qos, pid, false)?;
    run.apply(&Op::Recv(bytes_of(&inbound)), st);
    run.apply(&Op::Closed, st);
    if reconnecting {
        if as_client { run.apply(&Op::Send(connect.clone()), st); } else { run.apply(&Op::Recv(bytes_of(&connect)), st); }
    }
    let id = pid as Pid;
    let p: Packet = if cver == 4 {
        match resp {
            0 => v3_1_1::GenericPuback::<Pid>::builder().packet_id(id).build().ok()?.into(),
            1 | 2 => v3_1_1::GenericPubrec::<Pid>::builder().packet_id(id).build().ok()?.into(),
            _ => v3_1_1::GenericPubcomp::<Pid>::builder().packet_id(id).build().ok()?.into(),
        }
    } else {
        match resp {
            0 => v5_0::GenericPuback::<Pid>::builder().packet_id(id).build().ok()?.into(),
            1 => v5_0::GenericPubrec::<Pid>::builder().packet_id(id).build().ok()?.into(),
            2 => v5_0::GenericPubrec::<Pid>::builder().packet_id(id).reason_code(PubrecReasonCode::UnspecifiedError).build().ok()?.into(),
            _ => v5_0::GenericPubcomp::<Pid>::builder().packet_id(id).build().ok()?.into(),
        }
    };
    run.apply(&Op::Send(p), st);
    Some(run.line())
}

pub fn gen_matrix(out: &mut Vec<String>, st: &mut CaseStats) -> (u64, u64) {
    let mut cells = 0u64;
    let mut unreachable = 0u64;
    for role_n in 0..3u64 {
        for cver in [4u64, 5] {
            let sides: &[bool] = match role_n { 0 => &[true], 1 => &[false], _ => &[true, false] };
            for as_client in sides {
                for qos in [1u8, 2] {
                    for resp in 0..4u64 {
                        for reconnecting in [false, true] {
                            let line = match role_n {
                                0 => inbound_cell::<role::Client>(role_n, cver, *as_client, qos, resp, reconnecting, st),
                                1 => inbound_cell::<role::Server>(role_n, cver, *as_client, qos, resp, reconnecting, st),
                                _ => inbound_cell::<role::Any>(role_n, cver, *as_client, qos, resp, reconnecting, st),
                            };
                            match line { Some(l) => { cells += 1; out.push(l) } None => unreachable += 1 }
                        }
                    }
                }
            }
        }
    }
    for role_n in 0..3u64 {
        for cver in [4u64, 5] {
            let sides: &[bool] = match role_n { 0 => &[true], 1 => &[false], _ => &[true, false] };
            for as_client in sides {
                for pver in [4u64, 5] {
                    for qos in [1u8, 2] {
                        for ty in [3u64, 6, 8, 10] {
                            for reconnecting in [false, true] {
                                let line = match role_n {
                                    0 => held_cell::<role::Client>(role_n, cver, *as_client, pver, qos, ty, reconnecting, st),
                                    1 => held_cell::<role::Server>(role_n, cver, *as_client, pver, qos, ty, reconnecting, st),
                                    _ => held_cell::<role::Any>(role_n, cver, *as_client, pver, qos, ty, reconnecting, st),
                                };
                                match line { Some(l) => { cells += 1; out.push(l) } None => unreachable += 1 }
                            }
                        }
                    }
                }
            }
        }
    }
    for role_n in 0..3u64 {
        for cver in [4u64, 5, 0] {
            for status in 0..3u64 {
                if cver == 0 && status > 0 {
                    continue;
                }
                let sides: &[bool] = match role_n {
                    0 => &[true],
                    1 => &[false],
                    _ => &[true, false],
                };
                for as_client in sides {
                    for flags in 0..4u64 {
                        let persistent = flags & 1 != 0;
                        let offline = flags & 2 != 0;
                        for pver in [4u64, 5] {
                            for ty in 1..=15u64 {
                                if pver == 4 && ty == 15 {
                                    continue;
                                }
                                // through send() and through the compile-time-checked checked_send()
                                for checked in [false, true] {
                                    let line = match role_n {
                                        0 => matrix_cell::<role::Client>(role_n, cver, status, *as_client, persistent, offline, pver, ty, checked, st),
                                        1 => matrix_cell::<role::Server>(role_n, cver, status, *as_client, persistent, offline, pver, ty, checked, st),
                                        _ => matrix_cell::<role::Any>(role_n, cver, status, *as_client, persistent, offline, pver, ty, checked, st),
                                    };
                                    match line {
                                        Some(l) => {
                                            cells += 1;
                                            out.push(l)
                                        }
                                        None => unreachable += 1,
                                    }
                                }
                            }
                        }
                    }
                }
            }
        }
    }
    (cells, unreachable)
}

// exhaustive receive-gating matrix (C17): role x version x status x 16 type nibbles
fn recv_cell<R: HRole>(role_n: u64, cver: u64, status: u64, as_client: bool, nib: u64, level: u64, st: &mut CaseStats) -> Option<String> {
    let version = match cver {
        4 => Version::V3_1_1,
        5 => Version::V5_0,
        _ => Version::Undetermined,
    };
    let mut rng = Rng::new(11);
    let mut run = Runner::<R>::new(version, role_n, cver);
    run.out.insert(0, 1);
    let wire = if cver == 0 { if level == 5 { 5 } else { 4 } } else { cver };
    let connect: Packet = mk_connect(&mut rng, wire);
    let connack: Packet = if wire == 4 {
        v3_1_1::Connack::builder().session_present(false).return_code(ConnectReturnCode::Accepted).build().unwrap().into()
    } else {
        v5_0::Connack::builder().session_present(false).reason_code(ConnectReasonCode::Success).build().unwrap().into()
    };
    if status >= 1 {
        if as_client {
            run.apply(&Op::Send(connect.clone()), st);
        } else {
            run.apply(&Op::Recv(bytes_of(&connect)), st);
        }
    }
    if status >= 2 {
        if as_client {
            run.apply(&Op::Recv(bytes_of(&connack)), st);
        } else {
            run.apply(&Op::Send(connack.clone()), st);
        }
    }
    if run.conn.as_ref().unwrap().verif_state().status as u64 != status {
        return None;
    }
    let mut frame: Vec<u8> = match kind_packet(&mut rng, wire, nib, 1) {
        Some(p) if nib >= 1 => bytes_of(&p),
        _ => vec![(nib as u8) << 4, 0],
    };
    if nib == 1 && cver == 0 && level != 4 && level != 5 && frame.len() > 8 {
        frame[8] = level as u8; // protocol level byte of the CONNECT
    }
    run.apply(&Op::Recv(frame), st);
    Some(run.line())
}

pub fn gen_recv_matrix(out: &mut Vec<String>, st: &mut CaseStats) -> u64 {
    let mut cells = 0;
    for role_n in 0..3u64 {
        for cver in [4u64, 5, 0] {
            for status in 0..3u64 {
                if cver == 0 && status > 0 {
                    continue;
                }
                let sides: &[bool] = match role_n {
                    0 => &[true],
                    1 => &[false],
                    _ => &[true, false],
                };
                for as_client in sides {
                    for nib in 0..16u64 {
                        let levels: &[u64] = if cver == 0 && nib == 1 { &[4, 5, 3, 6, 0, 0x84, 0x85, 0x83, 0xff] } else { &[4] };
                        for level in levels {
                            let line = match role_n {
                                0 => recv_cell::<role::Client>(role_n, cver, status, *as_client, nib, *level, st),
                                1 => recv_cell::<role::Server>(role_n, cver, status, *as_client, nib, *level, st),
                                _ => recv_cell::<role::Any>(role_n, cver, status, *as_client, nib, *level, st),
                            };
                            if let Some(l) = line {
                                cells += 1;
                                out.push(l);
                            }
                        }
                    }
                }
            }
        }
    }
    cells
}
