//! C18 T-exh: the property placement / multiplicity table and the value rules, read off the
//! compiled crate through both the builder path and the parser path (bytes encoded here by hand,
//! independently of the library's serialisation).
use mqtt_protocol_core::mqtt;
use mqtt::packet::{v5_0, Property, Qos, SubEntry, SubOpts};
use mqtt::result_code::*;

pub const IDS: [u64; 27] = [1, 2, 3, 8, 9, 11, 17, 18, 19, 21, 22, 23, 24, 25, 26, 28, 31, 33, 34, 35, 36, 37, 38, 39, 40, 41, 42];
pub const LOCS: [u64; 28] = [1, 2, 3, 4, 5, 6, 7, 8, 9, 10, 11, 14, 15, 16, 101, 102, 103, 104, 105, 106, 107, 108, 109, 110, 111, 114, 115, 116];
// loc >= 100: the same location (loc % 100) on a second base packet: other flags, a failure reason code, more
// entries (115 = AUTH with Continue authentication, which needs an Authentication Method)

/// a valid sample of each property, through the library's constructors
pub fn sample(id: u64) -> Property {
    use mqtt::packet::*;
    match id {
        1 => PayloadFormatIndicator::new(PayloadFormat::String).unwrap().into(),
        2 => MessageExpiryInterval::new(10).unwrap().into(),
        3 => ContentType::new("ab").unwrap().into(),
        8 => ResponseTopic::new("ab").unwrap().into(),
        9 => CorrelationData::new(vec![1u8, 2]).unwrap().into(),
        11 => SubscriptionIdentifier::new(5).unwrap().into(),
        17 => SessionExpiryInterval::new(10).unwrap().into(),
        18 => AssignedClientIdentifier::new("ab").unwrap().into(),
        19 => ServerKeepAlive::new(10).unwrap().into(),
        21 => AuthenticationMethod::new("ab").unwrap().into(),
        22 => AuthenticationData::new(vec![1u8, 2]).unwrap().into(),
        23 => RequestProblemInformation::new(1).unwrap().into(),
        24 => WillDelayInterval::new(10).unwrap().into(),
        25 => RequestResponseInformation::new(1).unwrap().into(),
        26 => ResponseInformation::new("ab").unwrap().into(),
        28 => ServerReference::new("ab").unwrap().into(),
        31 => ReasonString::new("ab").unwrap().into(),
        33 => ReceiveMaximum::new(10).unwrap().into(),
        34 => TopicAliasMaximum::new(10).unwrap().into(),
        35 => TopicAlias::new(10).unwrap().into(),
        36 => MaximumQos::new(1).unwrap().into(),
        37 => RetainAvailable::new(1).unwrap().into(),
        38 => UserProperty::new("k", "v").unwrap().into(),
        39 => MaximumPacketSize::new(10).unwrap().into(),
        40 => WildcardSubscriptionAvailable::new(1).unwrap().into(),
        41 => SubscriptionIdentifierAvailable::new(1).unwrap().into(),
        _ => SharedSubscriptionAvailable::new(1).unwrap().into(),
    }
}

/// a second valid sample with a DIFFERENT value (a rule that compares whole properties sees two different ones)
pub fn sample2(id: u64) -> Property {
    use mqtt::packet::*;
    match id {
        1 => PayloadFormatIndicator::new(PayloadFormat::Binary).unwrap().into(),
        2 => MessageExpiryInterval::new(11).unwrap().into(),
        3 => ContentType::new("cd").unwrap().into(),
        8 => ResponseTopic::new("cd").unwrap().into(),
        9 => CorrelationData::new(vec![3u8, 4]).unwrap().into(),
        11 => SubscriptionIdentifier::new(200).unwrap().into(),
        17 => SessionExpiryInterval::new(11).unwrap().into(),
        18 => AssignedClientIdentifier::new("cd").unwrap().into(),
        19 => ServerKeepAlive::new(11).unwrap().into(),
        21 => AuthenticationMethod::new("cd").unwrap().into(),
        22 => AuthenticationData::new(vec![3u8, 4]).unwrap().into(),
        23 => RequestProblemInformation::new(0).unwrap().into(),
        24 => WillDelayInterval::new(11).unwrap().into(),
        25 => RequestResponseInformation::new(0).unwrap().into(),
        26 => ResponseInformation::new("cd").unwrap().into(),
        28 => ServerReference::new("cd").unwrap().into(),
        31 => ReasonString::new("cd").unwrap().into(),
        33 => ReceiveMaximum::new(11).unwrap().into(),
        34 => TopicAliasMaximum::new(11).unwrap().into(),
        35 => TopicAlias::new(11).unwrap().into(),
        36 => MaximumQos::new(0).unwrap().into(),
        37 => RetainAvailable::new(0).unwrap().into(),
        38 => UserProperty::new("k2", "w").unwrap().into(),
        39 => MaximumPacketSize::new(11).unwrap().into(),
        40 => WildcardSubscriptionAvailable::new(0).unwrap().into(),
        41 => SubscriptionIdentifierAvailable::new(0).unwrap().into(),
        _ => SharedSubscriptionAvailable::new(0).unwrap().into(),
    }
}
pub fn sample2_bytes(id: u64) -> Vec<u8> {
    let mut v = vec![id as u8];
    match id {
        1 | 23 | 25 | 36 | 37 | 40 | 41 | 42 => v.push(0),
        19 | 33 | 34 | 35 => v.extend_from_slice(&[0, 11]),
        2 | 17 | 24 | 39 => v.extend_from_slice(&[0, 0, 0, 11]),
        11 => v.extend_from_slice(&[0xC8, 0x01]),
        3 | 8 | 18 | 21 | 26 | 28 | 31 => v.extend_from_slice(&[0, 2, b'c', b'd']),
        9 | 22 => v.extend_from_slice(&[0, 2, 3, 4]),
        _ => v.extend_from_slice(&[0, 2, b'k', b'2', 0, 1, b'w']),
    }
    v
}
/// the k-th occurrence of an identifier in a list: alternating samples
pub fn sample_k(id: u64, k: usize, differ: bool) -> Property { if differ && k % 2 == 1 { sample2(id) } else { sample(id) } }
pub fn sample_bytes_k(id: u64, k: usize, differ: bool) -> Vec<u8> { if differ && k % 2 == 1 { sample2_bytes(id) } else { sample_bytes(id) } }
/// properties / hand-encoded bytes of an identifier list; `differ`: repeated identifiers carry different values
pub fn list_props(ids: &[u64], differ: bool) -> (Vec<Property>, Vec<u8>) {
    let mut seen: std::collections::HashMap<u64, usize> = std::collections::HashMap::new();
    let mut ps = Vec::new();
    let mut pb = Vec::new();
    for i in ids {
        let k = *seen.get(i).unwrap_or(&0);
        seen.insert(*i, k + 1);
        ps.push(sample_k(*i, k, differ));
        pb.extend_from_slice(&sample_bytes_k(*i, k, differ));
    }
    (ps, pb)
}

/// the same sample encoded by hand (MQTT v5.0 2.2.2.2)
pub fn sample_bytes(id: u64) -> Vec<u8> {
    let mut v = vec![id as u8];
    match id {
        1 | 23 | 25 | 36 | 37 | 40 | 41 | 42 => v.push(1),
        19 | 33 | 34 | 35 => v.extend_from_slice(&[0, 10]),
        2 | 17 | 24 | 39 => v.extend_from_slice(&[0, 0, 0, 10]),
        11 => v.push(5),
        3 | 8 | 18 | 21 | 26 | 28 | 31 => v.extend_from_slice(&[0, 2, b'a', b'b']),
        9 | 22 => v.extend_from_slice(&[0, 2, 1, 2]),
        _ => v.extend_from_slice(&[0, 1, b'k', 0, 1, b'v']),
    }
    v
}

pub fn build_with(loc: u64, props: Vec<Property>) -> bool {
    if loc >= 100 {
        return match loc - 100 {
            1 => v5_0::Connect::builder().client_id("cid2").unwrap().clean_start(true).keep_alive(60).user_name("u").unwrap().password(b"pw".to_vec()).unwrap().props(props).build().is_ok(),
            16 => v5_0::Connect::builder()
                .client_id("c")
                .unwrap()
                .will_message("w/t", b"pp".to_vec(), Qos::AtLeastOnce, true)
                .unwrap()
                .will_props(props)
                .build()
                .is_ok(),
            2 => v5_0::Connack::builder().session_present(false).reason_code(ConnectReasonCode::NotAuthorized).props(props).build().is_ok(),
            3 => v5_0::Publish::builder().topic_name("t").unwrap().qos(Qos::AtLeastOnce).packet_id(1u16).retain(true).payload(b"xy".to_vec()).props(props).build().is_ok(),
            4 => v5_0::Puback::builder().packet_id(2u16).reason_code(PubackReasonCode::UnspecifiedError).props(props).build().is_ok(),
            5 => v5_0::Pubrec::builder().packet_id(2u16).reason_code(PubrecReasonCode::UnspecifiedError).props(props).build().is_ok(),
            6 => v5_0::Pubrel::builder().packet_id(2u16).reason_code(PubrelReasonCode::PacketIdentifierNotFound).props(props).build().is_ok(),
            7 => v5_0::Pubcomp::builder().packet_id(2u16).reason_code(PubcompReasonCode::PacketIdentifierNotFound).props(props).build().is_ok(),
            8 => v5_0::Subscribe::builder()
                .packet_id(2u16)
                .entries(vec![SubEntry::new("a", SubOpts::default()).unwrap(), SubEntry::new("b/#", SubOpts::default().set_qos(Qos::AtLeastOnce)).unwrap()])
                .props(props)
                .build()
                .is_ok(),
            9 => v5_0::Suback::builder().packet_id(2u16).reason_codes(vec![SubackReasonCode::UnspecifiedError, SubackReasonCode::GrantedQos1]).props(props).build().is_ok(),
            10 => v5_0::Unsubscribe::builder().packet_id(2u16).entries(vec!["a", "b/#"]).unwrap().props(props).build().is_ok(),
            11 => v5_0::Unsuback::builder().packet_id(2u16).reason_codes(vec![UnsubackReasonCode::NoSubscriptionExisted, UnsubackReasonCode::Success]).props(props).build().is_ok(),
            14 => v5_0::Disconnect::builder().reason_code(DisconnectReasonCode::MalformedPacket).props(props).build().is_ok(),
            _ => v5_0::Auth::builder().reason_code(AuthReasonCode::ContinueAuthentication).props(props).build().is_ok(),
        };
    }
    match loc {
        1 => v5_0::Connect::builder().client_id("c").unwrap().props(props).build().is_ok(),
        16 => v5_0::Connect::builder()
            .client_id("c")
            .unwrap()
            .will_message("t", b"p".to_vec(), Qos::AtMostOnce, false)
            .unwrap()
            .will_props(props)
            .build()
            .is_ok(),
        2 => v5_0::Connack::builder().session_present(false).reason_code(ConnectReasonCode::Success).props(props).build().is_ok(),
        3 => {
            // an empty topic needs an alias; use a topic so that Topic Alias is judged on its own
            v5_0::Publish::builder().topic_name("t").unwrap().qos(Qos::AtMostOnce).props(props).build().is_ok()
        }
        4 => v5_0::Puback::builder().packet_id(1u16).reason_code(PubackReasonCode::Success).props(props).build().is_ok(),
        5 => v5_0::Pubrec::builder().packet_id(1u16).reason_code(PubrecReasonCode::Success).props(props).build().is_ok(),
        6 => v5_0::Pubrel::builder().packet_id(1u16).reason_code(PubrelReasonCode::Success).props(props).build().is_ok(),
        7 => v5_0::Pubcomp::builder().packet_id(1u16).reason_code(PubcompReasonCode::Success).props(props).build().is_ok(),
        8 => v5_0::Subscribe::builder()
            .packet_id(1u16)
            .entries(vec![SubEntry::new("t", SubOpts::default()).unwrap()])
            .props(props)
            .build()
            .is_ok(),
        9 => v5_0::Suback::builder().packet_id(1u16).reason_codes(vec![SubackReasonCode::GrantedQos0]).props(props).build().is_ok(),
        10 => v5_0::Unsubscribe::builder().packet_id(1u16).entries(vec!["t"]).unwrap().props(props).build().is_ok(),
        11 => v5_0::Unsuback::builder().packet_id(1u16).reason_codes(vec![UnsubackReasonCode::Success]).props(props).build().is_ok(),
        14 => v5_0::Disconnect::builder().reason_code(DisconnectReasonCode::NormalDisconnection).props(props).build().is_ok(),
        _ => v5_0::Auth::builder().reason_code(AuthReasonCode::Success).props(props).build().is_ok(),
    }
}

fn vbi(n: usize) -> Vec<u8> {
    let mut n = n;
    let mut v = Vec::new();
    loop {
        let mut b = (n % 128) as u8;
        n /= 128;
        if n > 0 {
            b |= 0x80;
        }
        v.push(b);
        if n == 0 {
            break;
        }
    }
    v
}

/// body bytes (after the fixed header) of a minimal packet carrying exactly these property bytes
pub fn body_with(loc: u64, pb: &[u8]) -> Vec<u8> {
    let mut props = vbi(pb.len());
    props.extend_from_slice(pb);
    let mut b: Vec<u8> = Vec::new();
    if loc >= 100 {
        match loc - 100 {
            1 => {
                b.extend_from_slice(&[0, 4, b'M', b'Q', b'T', b'T', 5, 0xC2, 0, 60]);
                b.extend_from_slice(&props);
                b.extend_from_slice(&[0, 4, b'c', b'i', b'd', b'2', 0, 1, b'u', 0, 2, b'p', b'w']);
            }
            16 => {
                b.extend_from_slice(&[0, 4, b'M', b'Q', b'T', b'T', 5, 0x2E, 0, 0, 0]); // will flag, will QoS 1, will retain, clean start
                b.extend_from_slice(&[0, 1, b'c']);
                b.extend_from_slice(&props);
                b.extend_from_slice(&[0, 3, b'w', b'/', b't', 0, 2, b'p', b'p']);
            }
            2 => { b.extend_from_slice(&[0, 0x87]); b.extend_from_slice(&props); }
            3 => { b.extend_from_slice(&[0, 1, b't', 0, 1]); b.extend_from_slice(&props); b.extend_from_slice(b"xy"); }
            4 | 5 => { b.extend_from_slice(&[0, 2, 0x80]); b.extend_from_slice(&props); }
            6 | 7 => { b.extend_from_slice(&[0, 2, 0x92]); b.extend_from_slice(&props); }
            8 => { b.extend_from_slice(&[0, 2]); b.extend_from_slice(&props); b.extend_from_slice(&[0, 1, b'a', 0, 0, 3, b'b', b'/', b'#', 1]); }
            9 => { b.extend_from_slice(&[0, 2]); b.extend_from_slice(&props); b.extend_from_slice(&[0x80, 1]); }
            10 => { b.extend_from_slice(&[0, 2]); b.extend_from_slice(&props); b.extend_from_slice(&[0, 1, b'a', 0, 3, b'b', b'/', b'#']); }
            11 => { b.extend_from_slice(&[0, 2]); b.extend_from_slice(&props); b.extend_from_slice(&[0x11, 0]); }
            14 => { b.push(0x81); b.extend_from_slice(&props); }
            _ => { b.push(0x18); b.extend_from_slice(&props); }
        }
        return b;
    }
    match loc {
        1 => {
            b.extend_from_slice(&[0, 4, b'M', b'Q', b'T', b'T', 5, 2, 0, 0]);
            b.extend_from_slice(&props);
            b.extend_from_slice(&[0, 1, b'c']);
        }
        16 => {
            b.extend_from_slice(&[0, 4, b'M', b'Q', b'T', b'T', 5, 6, 0, 0, 0]); // no CONNECT properties
            b.extend_from_slice(&[0, 1, b'c']);
            b.extend_from_slice(&props); // will properties
            b.extend_from_slice(&[0, 1, b't', 0, 1, b'p']);
        }
        2 => {
            b.extend_from_slice(&[0, 0]);
            b.extend_from_slice(&props);
        }
        3 => {
            b.extend_from_slice(&[0, 1, b't']);
            b.extend_from_slice(&props);
        }
        4 | 5 | 6 | 7 => {
            b.extend_from_slice(&[0, 1, 0]);
            b.extend_from_slice(&props);
        }
        8 => {
            b.extend_from_slice(&[0, 1]);
            b.extend_from_slice(&props);
            b.extend_from_slice(&[0, 1, b't', 0]);
        }
        9 | 11 => {
            b.extend_from_slice(&[0, 1]);
            b.extend_from_slice(&props);
            b.push(0);
        }
        10 => {
            b.extend_from_slice(&[0, 1]);
            b.extend_from_slice(&props);
            b.extend_from_slice(&[0, 1, b't']);
        }
        _ => {
            b.push(0);
            b.extend_from_slice(&props);
        }
    }
    b
}

pub fn parse_with(loc: u64, pb: &[u8]) -> bool {
    let body = body_with(loc, pb);
    let fl: u8 = if loc == 103 { 3 } else { 0 };
    let r = std::panic::catch_unwind(|| match loc % 100 {
        1 | 16 => v5_0::Connect::parse(&body).is_ok(),
        2 => v5_0::Connack::parse(&body).is_ok(),
        3 => v5_0::Publish::parse(fl, body.clone().into()).is_ok(),
        4 => v5_0::Puback::parse(&body).is_ok(),
        5 => v5_0::Pubrec::parse(&body).is_ok(),
        6 => v5_0::Pubrel::parse(&body).is_ok(),
        7 => v5_0::Pubcomp::parse(&body).is_ok(),
        8 => v5_0::Subscribe::parse(&body).is_ok(),
        9 => v5_0::Suback::parse(&body).is_ok(),
        10 => v5_0::Unsubscribe::parse(&body).is_ok(),
        11 => v5_0::Unsuback::parse(&body).is_ok(),
        14 => v5_0::Disconnect::parse(&body).is_ok(),
        _ => v5_0::Auth::parse(&body).is_ok(),
    });
    r.unwrap_or(false)
}

/// the list of ids a cell stands for: Authentication Data is always accompanied by one
/// Authentication Method (it is an error without one wherever it is allowed)
pub fn cell_ids(loc: u64, id: u64, count: u64) -> Vec<u64> {
    let mut v = Vec::new();
    if id == 22 || (loc == 115 && id != 21) {
        v.push(21);
    }
    for _ in 0..count {
        v.push(id);
    }
    v
}

/// value boundaries of the numeric properties: (id, value, constructor accepts, parser accepts)
pub fn value_rows() -> Vec<(u64, u64, bool, bool)> {
    use mqtt::packet::*;
    let mut o = Vec::new();
    let vals16: [u64; 5] = [0, 1, 2, 65534, 65535];
    let vals32: [u64; 5] = [0, 1, 2, 4294967294, 4294967295];
    let vals8: [u64; 6] = [0, 1, 2, 3, 128, 255];
    let valsv: [u64; 7] = [0, 1, 127, 128, 16384, 268435455, 268435456];
    for &v in &vals8 {
        let b = v as u8;
        let parse = |id: u8| Property::parse(&[id, b]).is_ok();
        o.push((1, v, PayloadFormat::try_from(b).is_ok(), parse(1)));
        o.push((23, v, RequestProblemInformation::new(b).is_ok(), parse(23)));
        o.push((25, v, RequestResponseInformation::new(b).is_ok(), parse(25)));
        o.push((36, v, MaximumQos::new(b).is_ok(), parse(36)));
        o.push((37, v, RetainAvailable::new(b).is_ok(), parse(37)));
        o.push((40, v, WildcardSubscriptionAvailable::new(b).is_ok(), parse(40)));
        o.push((41, v, SubscriptionIdentifierAvailable::new(b).is_ok(), parse(41)));
        o.push((42, v, SharedSubscriptionAvailable::new(b).is_ok(), parse(42)));
    }
    for &v in &vals16 {
        let x = v as u16;
        let parse = |id: u8| Property::parse(&[id, (x >> 8) as u8, x as u8]).is_ok();
        o.push((19, v, ServerKeepAlive::new(x).is_ok(), parse(19)));
        o.push((33, v, ReceiveMaximum::new(x).is_ok(), parse(33)));
        o.push((34, v, TopicAliasMaximum::new(x).is_ok(), parse(34)));
        o.push((35, v, TopicAlias::new(x).is_ok(), parse(35)));
    }
    for &v in &vals32 {
        let x = v as u32;
        let parse = |id: u8| Property::parse(&[id, (x >> 24) as u8, (x >> 16) as u8, (x >> 8) as u8, x as u8]).is_ok();
        o.push((2, v, MessageExpiryInterval::new(x).is_ok(), parse(2)));
        o.push((17, v, SessionExpiryInterval::new(x).is_ok(), parse(17)));
        o.push((24, v, WillDelayInterval::new(x).is_ok(), parse(24)));
        o.push((39, v, MaximumPacketSize::new(x).is_ok(), parse(39)));
    }
    for &v in &valsv {
        let mut bytes = vec![11u8];
        if v <= 268435455 {
            bytes.extend_from_slice(&vbi(v as usize));
        } else {
            bytes.extend_from_slice(&[0x80, 0x80, 0x80, 0x80, 0x01]);
        }
        o.push((11, v, SubscriptionIdentifier::new(v as u32).is_ok(), Property::parse(&bytes).is_ok()));
    }
    o
}

pub fn write_props_v(path: &str) {
    let mut s = String::new();
    s.push_str("(* GENERATED on every run by `verif-harness tables` from the compiled crate: for every property-carrying\n   location, property identifier and occurrence count, whether the BUILDER accepts the property list and whether\n   the PARSER accepts a hand-encoded packet carrying it; and the value boundaries of the numeric properties. *)\n");
    s.push_str("From MQ Require Import Base.Prelude.\n");
    s.push_str("Definition observed_props : list (N * N * N * bool * bool) := [\n");
    let mut rows: Vec<String> = Vec::new();
    for &loc in &LOCS {
        for &id in &IDS {
            // count 3 = twice, with two DIFFERENT values
            for count in 1..=3u64 {
                let ids = cell_ids(loc, id, count.min(2));
                let (props, pb) = list_props(&ids, count == 3);
                let b = std::panic::catch_unwind(|| build_with(loc, props)).unwrap_or(false);
                let p = parse_with(loc, &pb);
                rows.push(format!("  ({}, {}, {}, {}, {})", loc, id, count, b, p));
            }
        }
    }
    s.push_str(&rows.join(";\n"));
    s.push_str("\n]%N.\n");
    s.push_str("Definition observed_values : list (N * N * bool * bool) := [\n");
    let rows: Vec<String> = value_rows().iter().map(|(i, v, a, b)| format!("  ({}, {}, {}, {})", i, v, a, b)).collect();
    s.push_str(&rows.join(";\n"));
    s.push_str("\n]%N.\n");
    // unknown identifiers: every byte value that is not one of the 27 must be rejected by Property::parse
    s.push_str("Definition observed_unknown_ids_accepted : list N := [");
    let mut acc: Vec<String> = Vec::new();
    for id in 0..=255u64 {
        if !IDS.contains(&id) {
            let ok = std::panic::catch_unwind(|| Property::parse(&[id as u8, 0, 1, 0, 0, 0, 0]).is_ok()).unwrap_or(true);
            if ok {
                acc.push(id.to_string());
            }
        }
    }
    s.push_str(&acc.join("; "));
    s.push_str("]%N.\n");
    std::fs::write(path, s).unwrap();
}

/// random property lists (0..6 entries, biased towards the location's legal set) through both paths:
/// line = "c18 loc n id.. builder parser"
pub fn gen_lists(seed: u64, n: usize, out: &mut Vec<String>) -> (u64, u64) {
    let mut rng = crate::rng::Rng::new(seed ^ 0x18_18_18);
    let mut acc = 0u64;
    let mut rej = 0u64;
    for _ in 0..n {
        let loc = *rng.pick(&LOCS);
        let len = rng.below(7);
        // the legal ids of this location, learnt from single-property builds (only used as a generator bias)
        let legal: Vec<u64> = IDS.iter().copied().filter(|i| build_with(loc, cell_ids(loc, *i, 1).iter().map(|x| sample(*x)).collect())).collect();
        let mut ids: Vec<u64> = Vec::new();
        for _ in 0..len {
            let id = if !legal.is_empty() && rng.chance(5, 6) { *rng.pick(&legal) } else { *rng.pick(&IDS) };
            ids.push(id);
        }
        // repeated identifiers carry different values (the case seed decides; replay uses the same rule: list length parity)
        let differ = ids.len() % 2 == 0;
        let (props, pb) = list_props(&ids, differ);
        let b = std::panic::catch_unwind(|| build_with(loc, props)).unwrap_or(false);
        let p = parse_with(loc, &pb);
        if b { acc += 1 } else { rej += 1 }
        let mut s = format!("c18 {} {}", loc, ids.len());
        for i in &ids {
            s.push_str(&format!(" {}", i));
        }
        s.push_str(&format!(" {} {}", b as u64, p as u64));
        out.push(s);
    }
    (acc, rej)
}

/// replay of one list
pub fn replay_list(nums: &[u64]) -> String {
    let loc = nums[0];
    let n = nums[1] as usize;
    let ids: Vec<u64> = nums[2..2 + n].to_vec();
    let differ = ids.len() % 2 == 0;
    let (props, pb) = list_props(&ids, differ);
    let b = std::panic::catch_unwind(|| build_with(loc, props)).unwrap_or(false);
    let p = parse_with(loc, &pb);
    let mut s = format!("c18 {} {}", loc, ids.len());
    for i in &ids {
        s.push_str(&format!(" {}", i));
    }
    s.push_str(&format!(" {} {}", b as u64, p as u64));
    s
}

/// C03 T-exh: the numeric constants of the wire format as compiled: every reason/return-code enum
/// against all 256 byte values, and the fixed-header bytes.
pub fn write_codes_v(path: &str) {
    use mqtt::packet::FixedHeader;
    let mut s = String::new();
    s.push_str("(* GENERATED on every run by `verif-harness tables` from the compiled crate: for each reason/return code enum\n   (1 ConnectReturnCode 2 ConnectReasonCode 4 Puback 5 Pubrec 6 Pubrel 7 Pubcomp 8 SubackReturnCode 9 SubackReasonCode\n   11 Unsuback 14 Disconnect 15 Auth) the byte values `try_from` accepts, and the fixed-header bytes. *)\n");
    s.push_str("From MQ Require Import Base.Prelude.\n");
    s.push_str("Definition observed_codes : list (N * list N) := [\n");
    macro_rules! row {
        ($n:expr, $t:ident) => {{
            let acc: Vec<String> = (0..=255u16).filter(|b| $t::try_from(*b as u8).map(|x| x as u8 == *b as u8).unwrap_or(false)).map(|b| b.to_string()).collect();
            format!("  ({}, [{}])", $n, acc.join("; "))
        }};
    }
    let rows = vec![
        row!(1, ConnectReturnCode), row!(2, ConnectReasonCode), row!(4, PubackReasonCode), row!(5, PubrecReasonCode),
        row!(6, PubrelReasonCode), row!(7, PubcompReasonCode), row!(8, SubackReturnCode), row!(9, SubackReasonCode),
        row!(11, UnsubackReasonCode), row!(14, DisconnectReasonCode), row!(15, AuthReasonCode),
    ];
    s.push_str(&rows.join(";\n"));
    s.push_str("\n]%N.\n");
    s.push_str(&format!(
        "Definition observed_fixed_headers : list N := [{}; {}; {}; {}; {}; {}; {}; {}; {}; {}; {}; {}; {}; {}; {}]%N.\n",
        FixedHeader::Connect.as_u8(), FixedHeader::Connack.as_u8(), FixedHeader::Publish.as_u8(), FixedHeader::Puback.as_u8(),
        FixedHeader::Pubrec.as_u8(), FixedHeader::Pubrel.as_u8(), FixedHeader::Pubcomp.as_u8(), FixedHeader::Subscribe.as_u8(),
        FixedHeader::Suback.as_u8(), FixedHeader::Unsubscribe.as_u8(), FixedHeader::Unsuback.as_u8(), FixedHeader::Pingreq.as_u8(),
        FixedHeader::Pingresp.as_u8(), FixedHeader::Disconnect.as_u8(), FixedHeader::Auth.as_u8()
    ));
    std::fs::write(path, s).unwrap();
}
