// Included by pk.rs once per packet-id width (type alias `Pid`).  Abstract packets (the field values
// of MQTT v3.1.1 / v5.0 control packets), their construction through the public builders, the
// accessor dump of a built/parsed packet, and the token encoding shared with Packet/Packets.v.

use crate::rng::Rng;
use mqtt_protocol_core::mqtt;
use mqtt::packet::{v3_1_1, v5_0, GenericPacket, GenericPacketTrait, Property, Qos, SubEntry, SubOpts};
use mqtt::result_code::*;
use std::panic::{catch_unwind, AssertUnwindSafe};

pub type Packet = GenericPacket<Pid>;
pub const IDW: u64 = std::mem::size_of::<Pid>() as u64;
pub const IDMAX: u64 = Pid::MAX as u64;

#[derive(Clone, Debug, PartialEq)]
pub enum PVal {
    Byte(u64),
    U16(u64),
    U32(u64),
    Vbi(u64),
    Str(Vec<u8>),
    Bin(Vec<u8>),
    Pair(Vec<u8>, Vec<u8>),
}
#[derive(Clone, Debug, PartialEq)]
pub struct AProp {
    pub id: u64,
    pub val: PVal,
}
#[derive(Clone, Debug, PartialEq, Default)]
pub struct Tail {
    pub rc: Option<u64>,
    pub props: Option<Vec<AProp>>,
}
#[derive(Clone, Debug, PartialEq)]
pub struct Will {
    pub qos: u64,
    pub retain: bool,
    pub props: Vec<AProp>,
    pub topic: Vec<u8>,
    pub payload: Vec<u8>,
}
#[derive(Clone, Debug, PartialEq)]
pub enum Body {
    Connect { clean: bool, ka: u64, props: Vec<AProp>, cid: Vec<u8>, will: Option<Will>, user: Option<Vec<u8>>, pass: Option<Vec<u8>> },
    Connack { sp: bool, rc: u64, props: Vec<AProp> },
    Publish { dup: bool, qos: u64, retain: bool, topic: Vec<u8>, pid: Option<u64>, props: Vec<AProp>, payload: Vec<u8> },
    Ack { t: u64, pid: u64, tail: Tail },
    Subscribe { pid: u64, props: Vec<AProp>, entries: Vec<(Vec<u8>, u64)> },
    Suback { pid: u64, props: Vec<AProp>, codes: Vec<u64> },
    Unsubscribe { pid: u64, props: Vec<AProp>, filters: Vec<Vec<u8>> },
    Unsuback { pid: u64, props: Vec<AProp>, codes: Vec<u64> },
    Pingreq,
    Pingresp,
    Disconnect { tail: Tail },
    Auth { tail: Tail },
}

// ---------------------------------------------------------------- tokens (decoded by Corr/PkCodec.v)
fn lp(o: &mut Vec<u64>, b: &[u8]) {
    o.push(b.len() as u64);
    o.extend(b.iter().map(|x| *x as u64));
}
fn tok_prop(o: &mut Vec<u64>, p: &AProp) {
    o.push(p.id);
    match &p.val {
        PVal::Byte(v) => { o.push(0); o.push(*v) }
        PVal::U16(v) => { o.push(1); o.push(*v) }
        PVal::U32(v) => { o.push(2); o.push(*v) }
        PVal::Vbi(v) => { o.push(3); o.push(*v) }
        PVal::Str(s) => { o.push(4); lp(o, s) }
        PVal::Bin(s) => { o.push(5); lp(o, s) }
        PVal::Pair(k, v) => { o.push(6); lp(o, k); lp(o, v) }
    }
}
fn tok_props(o: &mut Vec<u64>, ps: &[AProp]) {
    o.push(ps.len() as u64);
    for p in ps {
        tok_prop(o, p);
    }
}
fn tok_opt_bytes(o: &mut Vec<u64>, b: &Option<Vec<u8>>) {
    match b {
        Some(x) => { o.push(1); lp(o, x) }
        None => o.push(0),
    }
}
fn tok_tail(o: &mut Vec<u64>, t: &Tail) {
    match t.rc { Some(r) => { o.push(1); o.push(r) } None => o.push(0) }
    match &t.props { Some(ps) => { o.push(1); tok_props(o, ps) } None => o.push(0) }
}
pub fn tokens(ver: u64, b: &Body, o: &mut Vec<u64>) {
    o.push(ver);
    o.push(IDW);
    match b {
        Body::Connect { clean, ka, props, cid, will, user, pass } => {
            o.push(1);
            o.push(*clean as u64);
            o.push(*ka);
            tok_props(o, props);
            lp(o, cid);
            match will {
                Some(w) => {
                    o.push(1);
                    o.push(w.qos);
                    o.push(w.retain as u64);
                    tok_props(o, &w.props);
                    lp(o, &w.topic);
                    lp(o, &w.payload);
                }
                None => o.push(0),
            }
            tok_opt_bytes(o, user);
            tok_opt_bytes(o, pass);
        }
        Body::Connack { sp, rc, props } => { o.push(2); o.push(*sp as u64); o.push(*rc); tok_props(o, props) }
        Body::Publish { dup, qos, retain, topic, pid, props, payload } => {
            o.push(3);
            o.push(*dup as u64);
            o.push(*qos);
            o.push(*retain as u64);
            lp(o, topic);
            match pid { Some(i) => { o.push(1); o.push(*i) } None => o.push(0) }
            tok_props(o, props);
            lp(o, payload);
        }
        Body::Ack { t, pid, tail } => { o.push(*t); o.push(*pid); tok_tail(o, tail) }
        Body::Subscribe { pid, props, entries } => {
            o.push(8);
            o.push(*pid);
            tok_props(o, props);
            o.push(entries.len() as u64);
            for (f, op) in entries { lp(o, f); o.push(*op) }
        }
        Body::Suback { pid, props, codes } => { o.push(9); o.push(*pid); tok_props(o, props); o.push(codes.len() as u64); o.extend_from_slice(codes) }
        Body::Unsubscribe { pid, props, filters } => {
            o.push(10);
            o.push(*pid);
            tok_props(o, props);
            o.push(filters.len() as u64);
            for f in filters { lp(o, f) }
        }
        Body::Unsuback { pid, props, codes } => { o.push(11); o.push(*pid); tok_props(o, props); o.push(codes.len() as u64); o.extend_from_slice(codes) }
        Body::Pingreq => o.push(12),
        Body::Pingresp => o.push(13),
        Body::Disconnect { tail } => { o.push(14); tok_tail(o, tail) }
        Body::Auth { tail } => { o.push(15); tok_tail(o, tail) }
    }
}

// ---------------------------------------------------------------- Abs -> library values
fn s(b: &[u8]) -> Option<String> {
    String::from_utf8(b.to_vec()).ok()
}
pub fn to_property(p: &AProp) -> Option<Property> {
    use mqtt::packet::*;
    Some(match (p.id, &p.val) {
        (1, PVal::Byte(v)) => PayloadFormatIndicator::new(PayloadFormat::try_from(*v as u8).ok()?).ok()?.into(),
        (2, PVal::U32(v)) => MessageExpiryInterval::new(*v as u32).ok()?.into(),
        (3, PVal::Str(x)) => ContentType::new(s(x)?).ok()?.into(),
        (8, PVal::Str(x)) => ResponseTopic::new(s(x)?).ok()?.into(),
        (9, PVal::Bin(x)) => CorrelationData::new(x.clone()).ok()?.into(),
        (11, PVal::Vbi(v)) => SubscriptionIdentifier::new(*v as u32).ok()?.into(),
        (17, PVal::U32(v)) => SessionExpiryInterval::new(*v as u32).ok()?.into(),
        (18, PVal::Str(x)) => AssignedClientIdentifier::new(s(x)?).ok()?.into(),
        (19, PVal::U16(v)) => ServerKeepAlive::new(*v as u16).ok()?.into(),
        (21, PVal::Str(x)) => AuthenticationMethod::new(s(x)?).ok()?.into(),
        (22, PVal::Bin(x)) => AuthenticationData::new(x.clone()).ok()?.into(),
        (23, PVal::Byte(v)) => RequestProblemInformation::new(*v as u8).ok()?.into(),
        (24, PVal::U32(v)) => WillDelayInterval::new(*v as u32).ok()?.into(),
        (25, PVal::Byte(v)) => RequestResponseInformation::new(*v as u8).ok()?.into(),
        (26, PVal::Str(x)) => ResponseInformation::new(s(x)?).ok()?.into(),
        (28, PVal::Str(x)) => ServerReference::new(s(x)?).ok()?.into(),
        (31, PVal::Str(x)) => ReasonString::new(s(x)?).ok()?.into(),
        (33, PVal::U16(v)) => ReceiveMaximum::new(*v as u16).ok()?.into(),
        (34, PVal::U16(v)) => TopicAliasMaximum::new(*v as u16).ok()?.into(),
        (35, PVal::U16(v)) => TopicAlias::new(*v as u16).ok()?.into(),
        (36, PVal::Byte(v)) => MaximumQos::new(*v as u8).ok()?.into(),
        (37, PVal::Byte(v)) => RetainAvailable::new(*v as u8).ok()?.into(),
        (38, PVal::Pair(k, v)) => UserProperty::new(s(k)?, s(v)?).ok()?.into(),
        (39, PVal::U32(v)) => MaximumPacketSize::new(*v as u32).ok()?.into(),
        (40, PVal::Byte(v)) => WildcardSubscriptionAvailable::new(*v as u8).ok()?.into(),
        (41, PVal::Byte(v)) => SubscriptionIdentifierAvailable::new(*v as u8).ok()?.into(),
        (42, PVal::Byte(v)) => SharedSubscriptionAvailable::new(*v as u8).ok()?.into(),
        _ => return None,
    })
}
fn to_props(ps: &[AProp]) -> Option<Vec<Property>> {
    ps.iter().map(to_property).collect()
}
pub fn from_property(p: &Property) -> AProp {
    let id = p.id() as u8 as u64;
    let val = match p {
        Property::PayloadFormatIndicator(x) => PVal::Byte(x.val() as u64),
        Property::MessageExpiryInterval(x) => PVal::U32(x.val() as u64),
        Property::ContentType(x) => PVal::Str(x.val().as_bytes().to_vec()),
        Property::ResponseTopic(x) => PVal::Str(x.val().as_bytes().to_vec()),
        Property::CorrelationData(x) => PVal::Bin(x.val().to_vec()),
        Property::SubscriptionIdentifier(x) => PVal::Vbi(x.val() as u64),
        Property::SessionExpiryInterval(x) => PVal::U32(x.val() as u64),
        Property::AssignedClientIdentifier(x) => PVal::Str(x.val().as_bytes().to_vec()),
        Property::ServerKeepAlive(x) => PVal::U16(x.val() as u64),
        Property::AuthenticationMethod(x) => PVal::Str(x.val().as_bytes().to_vec()),
        Property::AuthenticationData(x) => PVal::Bin(x.val().to_vec()),
        Property::RequestProblemInformation(x) => PVal::Byte(x.val() as u64),
        Property::WillDelayInterval(x) => PVal::U32(x.val() as u64),
        Property::RequestResponseInformation(x) => PVal::Byte(x.val() as u64),
        Property::ResponseInformation(x) => PVal::Str(x.val().as_bytes().to_vec()),
        Property::ServerReference(x) => PVal::Str(x.val().as_bytes().to_vec()),
        Property::ReasonString(x) => PVal::Str(x.val().as_bytes().to_vec()),
        Property::ReceiveMaximum(x) => PVal::U16(x.val() as u64),
        Property::TopicAliasMaximum(x) => PVal::U16(x.val() as u64),
        Property::TopicAlias(x) => PVal::U16(x.val() as u64),
        Property::MaximumQos(x) => PVal::Byte(x.val() as u64),
        Property::RetainAvailable(x) => PVal::Byte(x.val() as u64),
        Property::UserProperty(x) => PVal::Pair(x.key().as_bytes().to_vec(), x.val().as_bytes().to_vec()),
        Property::MaximumPacketSize(x) => PVal::U32(x.val() as u64),
        Property::WildcardSubscriptionAvailable(x) => PVal::Byte(x.val() as u64),
        Property::SubscriptionIdentifierAvailable(x) => PVal::Byte(x.val() as u64),
        Property::SharedSubscriptionAvailable(x) => PVal::Byte(x.val() as u64),
    };
    AProp { id, val }
}
fn from_props(ps: &[Property]) -> Vec<AProp> {
    ps.iter().map(from_property).collect()
}
fn qos_of(q: u64) -> Option<Qos> {
    match q { 0 => Some(Qos::AtMostOnce), 1 => Some(Qos::AtLeastOnce), 2 => Some(Qos::ExactlyOnce), _ => None }
}
fn pid_of(i: u64) -> Option<Pid> {
    if i <= IDMAX { Some(i as Pid) } else { None }
}

/// build through the public builders; None = some constructor or build() refused
pub fn build(ver: u64, b: &Body) -> Option<Packet> {
    let v5 = ver == 5;
    Some(match b {
        Body::Connect { clean, ka, props, cid, will, user, pass } => {
            if *ka > 65535 { return None }
            if v5 {
                let mut x = v5_0::Connect::builder().client_id(s(cid)?).ok()?.clean_start(*clean).keep_alive(*ka as u16);
                if !props.is_empty() { x = x.props(to_props(props)?) }
                if let Some(w) = will {
                    x = x.will_message(s(&w.topic)?, w.payload.clone(), qos_of(w.qos)?, w.retain).ok()?;
                    if !w.props.is_empty() { x = x.will_props(to_props(&w.props)?) }
                }
                if let Some(u) = user { x = x.user_name(s(u)?).ok()? }
                if let Some(p) = pass { x = x.password(p.clone()).ok()? }
                x.build().ok()?.into()
            } else {
                if !props.is_empty() { return None }
                let mut x = v3_1_1::Connect::builder().client_id(s(cid)?).ok()?.clean_session(*clean).keep_alive(*ka as u16);
                if let Some(w) = will {
                    if !w.props.is_empty() { return None }
                    x = x.will_message(s(&w.topic)?, w.payload.clone(), qos_of(w.qos)?, w.retain).ok()?;
                }
                if let Some(u) = user { x = x.user_name(s(u)?).ok()? }
                if let Some(p) = pass { x = x.password(p.clone()).ok()? }
                x.build().ok()?.into()
            }
        }
        Body::Connack { sp, rc, props } => {
            if v5 {
                let mut x = v5_0::Connack::builder().session_present(*sp).reason_code(ConnectReasonCode::try_from(*rc as u8).ok()?);
                if !props.is_empty() { x = x.props(to_props(props)?) }
                x.build().ok()?.into()
            } else {
                if !props.is_empty() || *rc > 255 { return None }
                v3_1_1::Connack::builder().session_present(*sp).return_code(ConnectReturnCode::try_from(*rc as u8).ok()?).build().ok()?.into()
            }
        }
        Body::Publish { dup, qos, retain, topic, pid, props, payload } => {
            if v5 {
                let mut x = v5_0::GenericPublish::<Pid>::builder().topic_name(s(topic)?).ok()?.qos(qos_of(*qos)?).dup(*dup).retain(*retain).payload(payload.clone());
                if let Some(i) = pid { x = x.packet_id(pid_of(*i)?) }
                if !props.is_empty() { x = x.props(to_props(props)?) }
                x.build().ok()?.into()
            } else {
                if !props.is_empty() { return None }
                let mut x = v3_1_1::GenericPublish::<Pid>::builder().topic_name(s(topic)?).ok()?.qos(qos_of(*qos)?).dup(*dup).retain(*retain).payload(payload.clone());
                if let Some(i) = pid { x = x.packet_id(pid_of(*i)?) }
                x.build().ok()?.into()
            }
        }
        Body::Ack { t, pid, tail } => {
            let id = pid_of(*pid)?;
            if v5 {
                macro_rules! ack {
                    ($ty:ident, $rc:ident) => {{
                        let mut x = v5_0::$ty::<Pid>::builder().packet_id(id);
                        if let Some(r) = tail.rc { x = x.reason_code($rc::try_from(r as u8).ok()?) }
                        if let Some(ps) = &tail.props { x = x.props(to_props(ps)?) }
                        x.build().ok()?.into()
                    }};
                }
                match t {
                    4 => ack!(GenericPuback, PubackReasonCode),
                    5 => ack!(GenericPubrec, PubrecReasonCode),
                    6 => ack!(GenericPubrel, PubrelReasonCode),
                    7 => ack!(GenericPubcomp, PubcompReasonCode),
                    _ => return None,
                }
            } else {
                if tail.rc.is_some() || tail.props.is_some() { return None }
                match t {
                    4 => v3_1_1::GenericPuback::<Pid>::builder().packet_id(id).build().ok()?.into(),
                    5 => v3_1_1::GenericPubrec::<Pid>::builder().packet_id(id).build().ok()?.into(),
                    6 => v3_1_1::GenericPubrel::<Pid>::builder().packet_id(id).build().ok()?.into(),
                    7 => v3_1_1::GenericPubcomp::<Pid>::builder().packet_id(id).build().ok()?.into(),
                    _ => return None,
                }
            }
        }
        Body::Subscribe { pid, props, entries } => {
            let id = pid_of(*pid)?;
            let mut es = Vec::new();
            for (f, op) in entries {
                if *op > 255 { return None }
                es.push(SubEntry::new(s(f)?, opts_via_setters(SubOpts::from_u8(*op as u8).ok()?, f.len() & 1 == 1)).ok()?);
            }
            if v5 {
                let mut x = v5_0::GenericSubscribe::<Pid>::builder().packet_id(id).entries(es);
                if !props.is_empty() { x = x.props(to_props(props)?) }
                x.build().ok()?.into()
            } else {
                if !props.is_empty() { return None }
                v3_1_1::GenericSubscribe::<Pid>::builder().packet_id(id).entries(es).build().ok()?.into()
            }
        }
        Body::Suback { pid, props, codes } => {
            let id = pid_of(*pid)?;
            if v5 {
                let cs: Option<Vec<SubackReasonCode>> = codes.iter().map(|c| SubackReasonCode::try_from(*c as u8).ok()).collect();
                let mut x = v5_0::GenericSuback::<Pid>::builder().packet_id(id).reason_codes(cs?);
                if !props.is_empty() { x = x.props(to_props(props)?) }
                x.build().ok()?.into()
            } else {
                if !props.is_empty() { return None }
                let cs: Option<Vec<SubackReturnCode>> = codes.iter().map(|c| SubackReturnCode::try_from(*c as u8).ok()).collect();
                v3_1_1::GenericSuback::<Pid>::builder().packet_id(id).return_codes(cs?).build().ok()?.into()
            }
        }
        Body::Unsubscribe { pid, props, filters } => {
            let id = pid_of(*pid)?;
            let fs: Option<Vec<String>> = filters.iter().map(|f| s(f)).collect();
            if v5 {
                let mut x = v5_0::GenericUnsubscribe::<Pid>::builder().packet_id(id).entries(fs?).ok()?;
                if !props.is_empty() { x = x.props(to_props(props)?) }
                x.build().ok()?.into()
            } else {
                if !props.is_empty() { return None }
                v3_1_1::GenericUnsubscribe::<Pid>::builder().packet_id(id).entries(fs?).ok()?.build().ok()?.into()
            }
        }
        Body::Unsuback { pid, props, codes } => {
            let id = pid_of(*pid)?;
            if v5 {
                let cs: Option<Vec<UnsubackReasonCode>> = codes.iter().map(|c| UnsubackReasonCode::try_from(*c as u8).ok()).collect();
                let mut x = v5_0::GenericUnsuback::<Pid>::builder().packet_id(id).reason_codes(cs?);
                if !props.is_empty() { x = x.props(to_props(props)?) }
                x.build().ok()?.into()
            } else {
                if !props.is_empty() || !codes.is_empty() { return None }
                v3_1_1::GenericUnsuback::<Pid>::builder().packet_id(id).build().ok()?.into()
            }
        }
        Body::Pingreq => if v5 { v5_0::Pingreq::builder().build().ok()?.into() } else { v3_1_1::Pingreq::builder().build().ok()?.into() },
        Body::Pingresp => if v5 { v5_0::Pingresp::builder().build().ok()?.into() } else { v3_1_1::Pingresp::builder().build().ok()?.into() },
        Body::Disconnect { tail } => {
            if v5 {
                let mut x = v5_0::Disconnect::builder();
                if let Some(r) = tail.rc { x = x.reason_code(DisconnectReasonCode::try_from(r as u8).ok()?) }
                if let Some(ps) = &tail.props { x = x.props(to_props(ps)?) }
                x.build().ok()?.into()
            } else {
                if tail.rc.is_some() || tail.props.is_some() { return None }
                v3_1_1::Disconnect::builder().build().ok()?.into()
            }
        }
        Body::Auth { tail } => {
            if !v5 { return None }
            let mut x = v5_0::Auth::builder();
            if let Some(r) = tail.rc { x = x.reason_code(AuthReasonCode::try_from(r as u8).ok()?) }
            if let Some(ps) = &tail.props { x = x.props(to_props(ps)?) }
            x.build().ok()?.into()
        }
    })
}

/// what the accessors of a packet report, as an abstract packet
pub fn accessors(p: &Packet) -> (u64, Body) {
    fn tail5<R: Copy + Into<u8>>(rc: Option<R>, props: &Option<mqtt::packet::Properties>) -> Tail {
        Tail { rc: rc.map(|r| r.into() as u64), props: props.as_ref().map(|ps| from_props(ps)) }
    }
    match p {
        GenericPacket::V3_1_1Connect(x) => (4, Body::Connect {
            clean: x.clean_session(), ka: x.keep_alive() as u64, props: vec![], cid: x.client_id().as_bytes().to_vec(),
            will: x.will_topic().map(|t| Will { qos: x.will_qos() as u8 as u64, retain: x.will_retain(), props: vec![], topic: t.as_bytes().to_vec(), payload: x.will_payload().unwrap_or(&[]).to_vec() }),
            user: x.user_name().map(|u| u.as_bytes().to_vec()), pass: x.password().map(|p| p.to_vec()) }),
        GenericPacket::V5_0Connect(x) => (5, Body::Connect {
            clean: x.clean_start(), ka: x.keep_alive() as u64, props: from_props(x.props()), cid: x.client_id().as_bytes().to_vec(),
            will: x.will_topic().map(|t| Will { qos: x.will_qos() as u8 as u64, retain: x.will_retain(), props: from_props(x.will_props()), topic: t.as_bytes().to_vec(), payload: x.will_payload().unwrap_or(&[]).to_vec() }),
            user: x.user_name().map(|u| u.as_bytes().to_vec()), pass: x.password().map(|p| p.to_vec()) }),
        GenericPacket::V3_1_1Connack(x) => (4, Body::Connack { sp: x.session_present(), rc: x.return_code() as u8 as u64, props: vec![] }),
        GenericPacket::V5_0Connack(x) => (5, Body::Connack { sp: x.session_present(), rc: x.reason_code() as u8 as u64, props: from_props(x.props()) }),
        GenericPacket::V3_1_1Publish(x) => (4, Body::Publish { dup: x.dup(), qos: x.qos() as u8 as u64, retain: x.retain(), topic: x.topic_name().as_bytes().to_vec(),
            pid: x.packet_id().map(|i| i as u64), props: vec![], payload: x.payload().as_slice().to_vec() }),
        GenericPacket::V5_0Publish(x) => (5, Body::Publish { dup: x.dup(), qos: x.qos() as u8 as u64, retain: x.retain(), topic: x.topic_name().as_bytes().to_vec(),
            pid: x.packet_id().map(|i| i as u64), props: from_props(x.props()), payload: x.payload().as_slice().to_vec() }),
        GenericPacket::V3_1_1Puback(x) => (4, Body::Ack { t: 4, pid: x.packet_id() as u64, tail: Tail { rc: x.reason_code().map(|r| r as u8 as u64), props: None } }),
        GenericPacket::V3_1_1Pubrec(x) => (4, Body::Ack { t: 5, pid: x.packet_id() as u64, tail: Tail { rc: x.reason_code().map(|r| r as u8 as u64), props: None } }),
        GenericPacket::V3_1_1Pubrel(x) => (4, Body::Ack { t: 6, pid: x.packet_id() as u64, tail: Tail { rc: x.reason_code().map(|r| r as u8 as u64), props: None } }),
        GenericPacket::V3_1_1Pubcomp(x) => (4, Body::Ack { t: 7, pid: x.packet_id() as u64, tail: Tail { rc: x.reason_code().map(|r| r as u8 as u64), props: None } }),
        GenericPacket::V5_0Puback(x) => (5, Body::Ack { t: 4, pid: x.packet_id() as u64, tail: tail5(x.reason_code().map(|r| r as u8), x.props()) }),
        GenericPacket::V5_0Pubrec(x) => (5, Body::Ack { t: 5, pid: x.packet_id() as u64, tail: tail5(x.reason_code().map(|r| r as u8), x.props()) }),
        GenericPacket::V5_0Pubrel(x) => (5, Body::Ack { t: 6, pid: x.packet_id() as u64, tail: tail5(x.reason_code().map(|r| r as u8), x.props()) }),
        GenericPacket::V5_0Pubcomp(x) => (5, Body::Ack { t: 7, pid: x.packet_id() as u64, tail: tail5(x.reason_code().map(|r| r as u8), x.props()) }),
        GenericPacket::V3_1_1Subscribe(x) => (4, Body::Subscribe { pid: x.packet_id() as u64, props: vec![],
            entries: x.entries().iter().map(|e| (e.topic_filter().as_bytes().to_vec(), e.sub_opts().to_buffer()[0] as u64)).collect() }),
        GenericPacket::V5_0Subscribe(x) => (5, Body::Subscribe { pid: x.packet_id() as u64, props: from_props(x.props()),
            entries: x.entries().iter().map(|e| (e.topic_filter().as_bytes().to_vec(), e.sub_opts().to_buffer()[0] as u64)).collect() }),
        GenericPacket::V3_1_1Suback(x) => (4, Body::Suback { pid: x.packet_id() as u64, props: vec![], codes: x.return_codes().iter().map(|c| *c as u8 as u64).collect() }),
        GenericPacket::V5_0Suback(x) => (5, Body::Suback { pid: x.packet_id() as u64, props: from_props(x.props()), codes: x.reason_codes().iter().map(|c| *c as u8 as u64).collect() }),
        GenericPacket::V3_1_1Unsubscribe(x) => (4, Body::Unsubscribe { pid: x.packet_id() as u64, props: vec![], filters: x.entries().iter().map(|e| e.as_str().as_bytes().to_vec()).collect() }),
        GenericPacket::V5_0Unsubscribe(x) => (5, Body::Unsubscribe { pid: x.packet_id() as u64, props: from_props(x.props()), filters: x.entries().iter().map(|e| e.as_str().as_bytes().to_vec()).collect() }),
        GenericPacket::V3_1_1Unsuback(x) => (4, Body::Unsuback { pid: x.packet_id() as u64, props: vec![], codes: vec![] }),
        GenericPacket::V5_0Unsuback(x) => (5, Body::Unsuback { pid: x.packet_id() as u64, props: from_props(x.props()), codes: x.reason_codes().iter().map(|c| *c as u8 as u64).collect() }),
        GenericPacket::V3_1_1Pingreq(_) => (4, Body::Pingreq),
        GenericPacket::V5_0Pingreq(_) => (5, Body::Pingreq),
        GenericPacket::V3_1_1Pingresp(_) => (4, Body::Pingresp),
        GenericPacket::V5_0Pingresp(_) => (5, Body::Pingresp),
        GenericPacket::V3_1_1Disconnect(_) => (4, Body::Disconnect { tail: Tail::default() }),
        GenericPacket::V5_0Disconnect(x) => (5, Body::Disconnect { tail: tail5(x.reason_code().map(|r| r as u8), x.props()) }),
        GenericPacket::V5_0Auth(x) => (5, Body::Auth { tail: tail5(x.reason_code().map(|r| r as u8), x.props()) }),
    }
}

// ---------------------------------------------------------------- generator
const LENS_SMALL: [usize; 14] = [0, 1, 2, 3, 10, 11, 15, 22, 23, 31, 46, 47, 127, 128];
const LENS_BIG: [usize; 5] = [255, 256, 16383, 16384, 65535];

fn gen_len(rng: &mut Rng, big_ok: bool) -> usize {
    if big_ok && rng.chance(1, 60) { *rng.pick(&LENS_BIG) } else if rng.chance(1, 3) { rng.below(8) as usize } else { *rng.pick(&LENS_SMALL) }
}
/// valid UTF-8 of exactly n bytes (n >= 0), mixing 1-4 byte sequences
fn gen_utf8(rng: &mut Rng, n: usize) -> Vec<u8> {
    let mut v = Vec::with_capacity(n);
    while v.len() < n {
        let left = n - v.len();
        let k = if rng.chance(4, 5) { 1 } else { 1 + rng.below(4) as usize };
        match k.min(left) {
            1 => v.push(*rng.pick(&[b'a', b'b', b'/', b't', b'0', b' ', 0x7f, 0x01, b'a', b'b', b'c', 0x00])),
            2 => v.extend_from_slice("\u{e9}".as_bytes()),
            3 => v.extend_from_slice(*rng.pick(&["\u{20ac}".as_bytes(), "\u{ffff}".as_bytes(), "\u{800}".as_bytes()])),
            _ => v.extend_from_slice(*rng.pick(&["\u{1f600}".as_bytes(), "\u{10ffff}".as_bytes(), "\u{10000}".as_bytes()])),
        }
    }
    v
}
fn gen_str(rng: &mut Rng, big_ok: bool) -> Vec<u8> {
    let n = gen_len(rng, big_ok);
    gen_utf8(rng, n)
}
fn gen_bin(rng: &mut Rng, big_ok: bool) -> Vec<u8> {
    let n = gen_len(rng, big_ok);
    (0..n).map(|_| rng.below(256) as u8).collect()
}
/// topic filters: mostly arbitrary strings, sometimes shared-subscription filters with a valid or an invalid ShareName
fn gen_filter(rng: &mut Rng) -> Vec<u8> {
    if rng.chance(2, 3) { return gen_str(rng, false) }
    rng.pick(&[&b"$share/g/t"[..], b"$share/grp/a/+", b"$share/g/#", b"$share/g/t", b"$share/+/t", b"$share/g#/t", b"$share//t", b"$share/g", b"$share/", b"$shar/x", b"$SHARE/g/t"]).to_vec()
}
fn gen_topic(rng: &mut Rng, big_ok: bool) -> Vec<u8> {
    let mut t = gen_str(rng, big_ok);
    for b in t.iter_mut() {
        if *b == b'#' || *b == b'+' { *b = b'x' }
    }
    if t.is_empty() { t.push(b't') }
    t
}

pub const PROP_IDS: [u64; 27] = [1, 2, 3, 8, 9, 11, 17, 18, 19, 21, 22, 23, 24, 25, 26, 28, 31, 33, 34, 35, 36, 37, 38, 39, 40, 41, 42];
fn shape(id: u64) -> u64 {
    match id {
        1 | 23 | 25 | 36 | 37 | 40 | 41 | 42 => 0,
        19 | 33 | 34 | 35 => 1,
        2 | 17 | 24 | 39 => 2,
        11 => 3,
        3 | 8 | 18 | 21 | 26 | 28 | 31 => 4,
        9 | 22 => 5,
        _ => 6,
    }
}
pub fn gen_prop(rng: &mut Rng, id: u64, valid: bool) -> AProp {
    let val = match shape(id) {
        0 => PVal::Byte(if valid { rng.below(2) } else { *rng.pick(&[0u64, 1, 2, 255]) }),
        1 => PVal::U16(if valid { *rng.pick(&[1u64, 2, 10, 65535]) } else { *rng.pick(&[0u64, 1, 65535]) }),
        2 => PVal::U32(if valid { *rng.pick(&[1u64, 2, 100, 268435455, 4294967295]) } else { *rng.pick(&[0u64, 1, 4294967295]) }),
        3 => PVal::Vbi(if valid { *rng.pick(&[1u64, 127, 128, 16383, 16384, 2097151, 2097152, 268435455]) } else { *rng.pick(&[0u64, 1, 268435455]) }),
        4 => PVal::Str(gen_str(rng, false)),
        5 => PVal::Bin(gen_bin(rng, false)),
        _ => PVal::Pair(gen_str(rng, false), gen_str(rng, false)),
    };
    AProp { id, val }
}
fn legal_ids(loc: u64) -> Vec<u64> {
    match loc {
        1 => vec![17, 21, 22, 23, 25, 33, 34, 38, 39],
        2 => vec![17, 18, 19, 21, 22, 26, 28, 31, 33, 34, 36, 37, 38, 39, 40, 41, 42],
        3 => vec![1, 2, 3, 8, 9, 11, 35, 38],
        4 | 5 | 6 | 7 | 9 | 11 => vec![31, 38],
        8 => vec![11, 38],
        10 => vec![38],
        14 => vec![17, 28, 31, 38],
        15 => vec![21, 22, 31, 38],
        _ => vec![1, 2, 3, 8, 9, 24, 38],
    }
}
/// mostly legal: each non-repeatable id at most once; `spoil` injects a placement/duplicate/value error
fn gen_props(rng: &mut Rng, loc: u64, spoil: bool) -> Vec<AProp> {
    let legal = legal_ids(loc);
    let n = if rng.chance(1, 3) { 0 } else { rng.below(5) };
    let mut ps: Vec<AProp> = Vec::new();
    for _ in 0..n {
        let id = *rng.pick(&legal);
        let repeat_ok = id == 38 || (id == 11 && loc == 3);
        if !repeat_ok && ps.iter().any(|p| p.id == id) { continue }
        ps.push(gen_prop(rng, id, true));
    }
    // Authentication Data needs a method in AUTH
    if loc == 15 && ps.iter().any(|p| p.id == 22) && !ps.iter().any(|p| p.id == 21) {
        ps.insert(0, gen_prop(rng, 21, true));
    }
    if spoil {
        match rng.below(3) {
            0 => { let id = *rng.pick(&PROP_IDS); ps.push(gen_prop(rng, id, true)) }
            1 => if let Some(p) = ps.first().cloned() { ps.push(p) } else { let id = *rng.pick(&legal); ps.push(gen_prop(rng, id, true)); let q = ps[0].clone(); ps.push(q) },
            _ => { let id = *rng.pick(&legal); ps.push(gen_prop(rng, id, false)) }
        }
    }
    ps
}
fn gen_props_p(rng: &mut Rng, loc: u64, spoil: bool, num: u64, den: u64) -> Vec<AProp> {
    let sp = spoil && rng.chance(num, den);
    gen_props(rng, loc, sp)
}
fn gen_pid_p(rng: &mut Rng, spoil: bool, num: u64, den: u64) -> u64 {
    let sp = spoil && rng.chance(num, den);
    gen_pid(rng, sp)
}
fn gen_pid(rng: &mut Rng, spoil: bool) -> u64 {
    if spoil { 0 } else { *rng.pick(&[1u64, 2, 255, 256, 65535.min(IDMAX), IDMAX, IDMAX - 1, 0x0100_0000.min(IDMAX)]) }
}
fn gen_tail(rng: &mut Rng, loc: u64, rcs: &[u64], spoil: bool) -> Tail {
    match rng.below(4) {
        0 => Tail::default(),
        1 => Tail { rc: Some(*rng.pick(rcs)), props: None },
        _ => Tail { rc: Some(if spoil && rng.chance(1, 2) { *rng.pick(&[1u64, 3, 127, 255]) } else { *rng.pick(rcs) }), props: Some(gen_props_p(rng, loc, spoil, 1, 2)) },
    }
}

pub fn gen_body(rng: &mut Rng, ver: u64, ty: u64, spoil: bool) -> Body {
    let v5 = ver == 5;
    let big = rng.chance(1, 4);
    match ty {
        1 => {
            let user = if rng.chance(1, 2) { Some(gen_str(rng, big)) } else { None };
            let pass = if user.is_some() && rng.chance(1, 2) || (spoil && rng.chance(1, 3)) { Some(gen_bin(rng, big)) } else { None };
            let will = if rng.chance(1, 2) {
                Some(Will { qos: rng.below(3), retain: rng.chance(1, 2), props: if v5 { gen_props_p(rng, 16, spoil, 1, 3) } else { vec![] }, topic: gen_topic(rng, false), payload: gen_bin(rng, big) })
            } else { None };
            Body::Connect { clean: rng.chance(1, 2), ka: *rng.pick(&[0u64, 1, 255, 256, 65535]), props: if v5 { gen_props_p(rng, 1, spoil, 1, 3) } else { vec![] }, cid: gen_str(rng, false), will, user, pass }
        }
        2 => Body::Connack { sp: rng.chance(1, 2), rc: if v5 { *rng.pick(&[0u64, 128, 129, 130, 132, 134, 135, 138, 144, 149, 159]) } else { rng.below(6) }, props: if v5 { gen_props(rng, 2, spoil) } else { vec![] } },
        3 => {
            let qos = rng.below(3);
            let mut props = if v5 { gen_props_p(rng, 3, spoil, 1, 2) } else { vec![] };
            let mut topic = gen_topic(rng, big);
            if v5 && rng.chance(1, 6) {
                topic.clear();
                if !props.iter().any(|p| p.id == 35) && !(spoil && rng.chance(1, 2)) { props.push(gen_prop(rng, 35, true)) }
            }
            if spoil && rng.chance(1, 4) { topic = b"a/#".to_vec() }
            let pid = if qos > 0 { if spoil && rng.chance(1, 4) { None } else { Some(gen_pid_p(rng, spoil, 1, 3)) } } else if spoil && rng.chance(1, 4) { Some(1) } else { None };
            Body::Publish { dup: rng.chance(1, 3), qos, retain: rng.chance(1, 3), topic, pid, props, payload: gen_bin(rng, big) }
        }
        4 | 5 | 6 | 7 => {
            let rcs: &[u64] = if ty == 4 || ty == 5 { &[0, 16, 128, 131, 135, 144, 145, 151, 153] } else { &[0, 146] };
            Body::Ack { t: ty, pid: gen_pid_p(rng, spoil, 1, 2), tail: if v5 { gen_tail(rng, ty, rcs, spoil) } else { Tail::default() } }
        }
        8 => {
            let n = if spoil && rng.chance(1, 3) { 0 } else { rng.range(1, 4) };
            let entries = (0..n).map(|_| {
                let q = rng.below(3);
                let op = if v5 { q | (rng.below(2) << 2) | (rng.below(2) << 3) | (rng.below(3) << 4) } else { q };
                (gen_filter(rng), op)
            }).collect();
            Body::Subscribe { pid: gen_pid_p(rng, spoil, 1, 3), props: if v5 { gen_props_p(rng, 8, spoil, 1, 3) } else { vec![] }, entries }
        }
        9 => {
            let n = if spoil && rng.chance(1, 3) { 0 } else { rng.range(1, 5) };
            let set: &[u64] = if v5 { &[0, 1, 2, 128, 131, 135, 143, 145, 151, 158, 161, 162] } else { &[0, 1, 2, 128] };
            Body::Suback { pid: gen_pid_p(rng, spoil, 1, 3), props: if v5 { gen_props_p(rng, 9, spoil, 1, 3) } else { vec![] }, codes: (0..n).map(|_| *rng.pick(set)).collect() }
        }
        10 => {
            let n = if spoil && rng.chance(1, 3) { 0 } else { rng.range(1, 4) };
            Body::Unsubscribe { pid: gen_pid_p(rng, spoil, 1, 3), props: if v5 { gen_props_p(rng, 10, spoil, 1, 3) } else { vec![] }, filters: (0..n).map(|_| gen_filter(rng)).collect() }
        }
        11 => {
            let n = if !v5 { 0 } else if spoil && rng.chance(1, 3) { 0 } else { rng.range(1, 5) };
            Body::Unsuback { pid: gen_pid_p(rng, spoil, 1, 3), props: if v5 { gen_props_p(rng, 11, spoil, 1, 3) } else { vec![] }, codes: (0..n).map(|_| *rng.pick(&[0u64, 17, 128, 131, 135, 143, 145])).collect() }
        }
        12 => Body::Pingreq,
        13 => Body::Pingresp,
        14 => Body::Disconnect { tail: if v5 { gen_tail(rng, 14, &[0, 4, 128, 129, 130, 131, 135, 137, 139, 141, 142, 143, 144, 147, 148, 149, 150, 151, 152, 153, 154, 155, 156, 157, 158, 159, 160, 161, 162], spoil) } else { Tail::default() } },
        _ => {
            let mut tail = gen_tail(rng, 15, &[0, 24, 25], spoil);
            // AUTH has no reason-code-only form: a reason code comes with a property length
            if tail.rc.is_some() && tail.props.is_none() {
                tail.props = Some(Vec::new());
            }
            // a non-success AUTH needs an Authentication Method
            if let (Some(rc), false) = (tail.rc, spoil) {
                if rc != 0 {
                    let mut ps = tail.props.take().unwrap_or_default();
                    if !ps.iter().any(|p| p.id == 21) { ps.insert(0, gen_prop(rng, 21, true)) }
                    tail.props = Some(ps);
                }
            }
            Body::Auth { tail }
        }
    }
}

fn push_bytes(o: &mut Vec<u64>, b: &[u8]) {
    o.push(b.len() as u64);
    o.extend(b.iter().map(|x| *x as u64));
}

fn parse_whole(ver: u64, bytes: &[u8]) -> Option<Result<(Packet, usize), u16>> {
    // split the frame with an independent reading of the fixed header
    if bytes.len() < 2 { return None }
    let mut rl: usize = 0;
    let mut mult: usize = 1;
    let mut i = 1;
    loop {
        if i >= bytes.len() || i > 4 { return None }
        let b = bytes[i];
        rl += (b & 0x7f) as usize * mult;
        mult *= 128;
        i += 1;
        if b & 0x80 == 0 { break }
    }
    if bytes.len() != i + rl { return None }
    let body = &bytes[i..];
    let fh = bytes[0];
    Some(parse_body(ver, fh, body))
}

/// the library's parser for (version, fixed header, body): packet and consumed count, or the error number
pub fn parse_body(ver: u64, fh: u8, body: &[u8]) -> Result<(Packet, usize), u16> {
    let t = fh >> 4;
    let flags = fh & 0x0f;
    macro_rules! p {
        ($e:expr) => { $e.map(|(x, n)| (x.into(), n)).map_err(|e| e as u16) };
    }
    let arc: mqtt::common::Arc<[u8]> = mqtt::common::Arc::from(body);
    if ver == 4 {
        match t {
            1 => p!(v3_1_1::Connect::parse(body)),
            2 => p!(v3_1_1::Connack::parse(body)),
            3 => p!(v3_1_1::GenericPublish::<Pid>::parse(flags, arc)),
            4 => p!(v3_1_1::GenericPuback::<Pid>::parse(body)),
            5 => p!(v3_1_1::GenericPubrec::<Pid>::parse(body)),
            6 => p!(v3_1_1::GenericPubrel::<Pid>::parse(body)),
            7 => p!(v3_1_1::GenericPubcomp::<Pid>::parse(body)),
            8 => p!(v3_1_1::GenericSubscribe::<Pid>::parse(body)),
            9 => p!(v3_1_1::GenericSuback::<Pid>::parse(body)),
            10 => p!(v3_1_1::GenericUnsubscribe::<Pid>::parse(body)),
            11 => p!(v3_1_1::GenericUnsuback::<Pid>::parse(body)),
            12 => p!(v3_1_1::Pingreq::parse(body)),
            13 => p!(v3_1_1::Pingresp::parse(body)),
            14 => p!(v3_1_1::Disconnect::parse(body)),
            _ => Err(0),
        }
    } else {
        match t {
            1 => p!(v5_0::Connect::parse(body)),
            2 => p!(v5_0::Connack::parse(body)),
            3 => p!(v5_0::GenericPublish::<Pid>::parse(flags, arc)),
            4 => p!(v5_0::GenericPuback::<Pid>::parse(body)),
            5 => p!(v5_0::GenericPubrec::<Pid>::parse(body)),
            6 => p!(v5_0::GenericPubrel::<Pid>::parse(body)),
            7 => p!(v5_0::GenericPubcomp::<Pid>::parse(body)),
            8 => p!(v5_0::GenericSubscribe::<Pid>::parse(body)),
            9 => p!(v5_0::GenericSuback::<Pid>::parse(body)),
            10 => p!(v5_0::GenericUnsubscribe::<Pid>::parse(body)),
            11 => p!(v5_0::GenericUnsuback::<Pid>::parse(body)),
            12 => p!(v5_0::Pingreq::parse(body)),
            13 => p!(v5_0::Pingresp::parse(body)),
            14 => p!(v5_0::Disconnect::parse(body)),
            15 => p!(v5_0::Auth::parse(body)),
            _ => Err(0),
        }
    }
}

#[derive(Default)]
pub struct PkStats {
    pub built: u64,
    pub rejected: u64,
    pub by_type: [u64; 16],
    pub big: u64,
    pub panics: u64,
    pub parse_ok: u64,
    pub parse_err: u64,
}

/// one builder case.  Line: pk <tokens> ; then 1 <n> bytes size bufcat_ok reparse_eq consumed_ok acc_eq   (built)
///                                         or 0                                                          (refused)
pub fn case_line(ver: u64, b: &Body, st: &mut PkStats) -> String {
    let mut o: Vec<u64> = Vec::new();
    tokens(ver, b, &mut o);
    let built = catch_unwind(AssertUnwindSafe(|| build(ver, b)));
    match built {
        Err(_) => { st.panics += 1; o.push(2) }
        Ok(None) => { st.rejected += 1; o.push(0) }
        Ok(Some(p)) => {
            st.built += 1;
            let r = catch_unwind(AssertUnwindSafe(|| {
                let bytes = p.to_continuous_buffer();
                let size = p.size();
                let mut cat: Vec<u8> = Vec::new();
                for sl in p.to_buffers() { cat.extend_from_slice(&sl) }
                let (re_eq, cons_ok) = match parse_whole(ver, &bytes) {
                    Some(Ok((q, n))) => {
                        let body_len = bytes.len() - 1 - (if bytes.len() - 2 < 128 { 1 } else { 0 }) ; // placeholder, recomputed below
                        let _ = body_len;
                        (q == p, n)
                    }
                    _ => (false, usize::MAX),
                };
                let (av, ab) = accessors(&p);
                (bytes, size, cat, re_eq, cons_ok, av == ver && ab == *b)
            }));
            match r {
                Err(_) => { st.panics += 1; o.push(2) }
                Ok((bytes, size, cat, re_eq, consumed, acc_eq)) => {
                    if bytes.len() > 1000 { st.big += 1 }
                    // header length = 1 + size of the Remaining Length field
                    let mut i = 1;
                    while i < bytes.len() && bytes[i] & 0x80 != 0 { i += 1 }
                    let hdr = i + 1;
                    o.push(1);
                    push_bytes(&mut o, &bytes);
                    o.push(size as u64);
                    o.push((cat == bytes) as u64);
                    o.push(re_eq as u64);
                    o.push((consumed != usize::MAX && consumed + hdr == bytes.len()) as u64);
                    o.push(acc_eq as u64);
                }
            }
        }
    }
    let mut s = String::with_capacity(o.len() * 4 + 4);
    s.push_str("pk");
    for x in &o { s.push(' '); s.push_str(&x.to_string()) }
    s
}

/// a v5.0 PUBLISH that is EDITED after it was built (the functions the connection uses for topic-alias
/// handling and for the stored form), with a property block next to the 127/128 boundary where the
/// Property Length changes width.  The abstract packet of the case is read back from the accessors of the
/// edited packet; the line is judged like any built packet (bytes = reference encoding, size, re-parse).
pub fn edited_case(rng: &mut Rng, st: &mut PkStats) -> Option<String> {
    let l = rng.range(118, 136) as usize;                 // property block length before the edit
    let dir = rng.below(4);
    let has_alias = dir >= 2;
    let fill = l.saturating_sub(6 + if has_alias { 3 } else { 0 });
    let mut props = vec![AProp { id: 38, val: PVal::Pair(b"k".to_vec(), vec![b'x'; fill]) }];
    if has_alias { props.push(AProp { id: 35, val: PVal::U16(1) }) }
    let topic: Vec<u8> = if dir == 3 { Vec::new() } else { b"t/1".to_vec() };
    let qos = rng.below(3);
    let b = Body::Publish { dup: false, qos, retain: false, topic, pid: if qos > 0 { Some(1) } else { None }, props, payload: vec![1, 2, 3] };
    let p = build(5, &b)?;
    let edited: Packet = match p {
        GenericPacket::V5_0Publish(x) => {
            let y = match dir {
                0 => x.add_topic_alias(2),
                1 => x.remove_topic_add_topic_alias(2),
                2 => x.remove_topic_alias(),
                _ => x.remove_topic_alias_add_topic("t/22".to_string()).ok()?,
            };
            y.into()
        }
        _ => return None,
    };
    let (av, ab) = accessors(&edited);
    let mut o: Vec<u64> = Vec::new();
    tokens(av, &ab, &mut o);
    st.built += 1;
    let p = edited;
    let r = catch_unwind(AssertUnwindSafe(|| {
        let bytes = p.to_continuous_buffer();
        let size = p.size();
        let mut cat: Vec<u8> = Vec::new();
        for sl in p.to_buffers() { cat.extend_from_slice(&sl) }
        let (re_eq, cons_ok) = match parse_whole(5, &bytes) { Some(Ok((q, n))) => (q == p, n), _ => (false, usize::MAX) };
        (bytes, size, cat, re_eq, cons_ok)
    }));
    match r {
        Err(_) => { st.panics += 1; o.push(2) }
        Ok((bytes, size, cat, re_eq, consumed)) => {
            let mut i = 1;
            while i < bytes.len() && bytes[i] & 0x80 != 0 { i += 1 }
            let hdr = i + 1;
            o.push(1);
            push_bytes(&mut o, &bytes);
            o.push(size as u64);
            o.push((cat == bytes) as u64);
            o.push(re_eq as u64);
            o.push((consumed != usize::MAX && consumed + hdr == bytes.len()) as u64);
            o.push(1);
        }
    }
    let mut s = String::with_capacity(o.len() * 4 + 4);
    s.push_str("pk");
    for x in &o { s.push(' '); s.push_str(&x.to_string()) }
    Some(s)
}

pub fn gen_cases(rng: &mut Rng, n: usize, out: &mut Vec<String>, st: &mut PkStats) {
    for k in 0..n {
        if k % 12 == 5 {
            if let Some(l) = edited_case(rng, st) { out.push(l); continue }
        }
        let ver = if rng.chance(1, 3) { 4 } else { 5 };
        let ty = if ver == 5 { rng.range(1, 15) } else { rng.range(1, 14) };
        let ty = if rng.chance(1, 4) { *rng.pick(&[1u64, 3, 3, 8]) } else { ty };
        let spoil = rng.chance(1, 8);
        let b = gen_body(rng, ver, ty, spoil);
        st.by_type[ty as usize] += 1;
        out.push(case_line(ver, &b, st));
    }
}

// ---------------------------------------------------------------- tokens -> Abs (replay)
struct Tk<'a> { t: &'a [u64], i: usize }
impl<'a> Tk<'a> {
    fn n(&mut self) -> Option<u64> { let x = *self.t.get(self.i)?; self.i += 1; Some(x) }
    fn lp(&mut self) -> Option<Vec<u8>> { let n = self.n()? as usize; if self.i + n > self.t.len() { return None } let v = self.t[self.i..self.i + n].iter().map(|x| *x as u8).collect(); self.i += n; Some(v) }
    fn prop(&mut self) -> Option<AProp> {
        let id = self.n()?;
        let sh = self.n()?;
        let val = match sh { 0 => PVal::Byte(self.n()?), 1 => PVal::U16(self.n()?), 2 => PVal::U32(self.n()?), 3 => PVal::Vbi(self.n()?), 4 => PVal::Str(self.lp()?), 5 => PVal::Bin(self.lp()?), _ => { let k = self.lp()?; PVal::Pair(k, self.lp()?) } };
        Some(AProp { id, val })
    }
    fn props(&mut self) -> Option<Vec<AProp>> { let n = self.n()?; (0..n).map(|_| self.prop()).collect() }
    fn opt_bytes(&mut self) -> Option<Option<Vec<u8>>> { if self.n()? == 0 { Some(None) } else { Some(Some(self.lp()?)) } }
    fn tail(&mut self) -> Option<Tail> {
        let rc = if self.n()? == 0 { None } else { Some(self.n()?) };
        let props = if self.n()? == 0 { None } else { Some(self.props()?) };
        Some(Tail { rc, props })
    }
}
pub fn abs_from_tokens(t: &[u64]) -> Option<(u64, Body)> {
    let mut k = Tk { t, i: 0 };
    let ver = k.n()?;
    let _idw = k.n()?;
    let ty = k.n()?;
    let b = match ty {
        1 => {
            let clean = k.n()? != 0; let ka = k.n()?; let props = k.props()?; let cid = k.lp()?;
            let will = if k.n()? == 0 { None } else { let qos = k.n()?; let retain = k.n()? != 0; let props = k.props()?; let topic = k.lp()?; let payload = k.lp()?; Some(Will { qos, retain, props, topic, payload }) };
            let user = k.opt_bytes()?; let pass = k.opt_bytes()?;
            Body::Connect { clean, ka, props, cid, will, user, pass }
        }
        2 => { let sp = k.n()? != 0; let rc = k.n()?; Body::Connack { sp, rc, props: k.props()? } }
        3 => {
            let dup = k.n()? != 0; let qos = k.n()?; let retain = k.n()? != 0; let topic = k.lp()?;
            let pid = if k.n()? == 0 { None } else { Some(k.n()?) };
            let props = k.props()?; let payload = k.lp()?;
            Body::Publish { dup, qos, retain, topic, pid, props, payload }
        }
        4 | 5 | 6 | 7 => { let pid = k.n()?; Body::Ack { t: ty, pid, tail: k.tail()? } }
        8 => { let pid = k.n()?; let props = k.props()?; let n = k.n()?; let mut entries = Vec::new(); for _ in 0..n { let f = k.lp()?; entries.push((f, k.n()?)) } Body::Subscribe { pid, props, entries } }
        9 => { let pid = k.n()?; let props = k.props()?; let n = k.n()?; let codes: Option<Vec<u64>> = (0..n).map(|_| k.n()).collect(); Body::Suback { pid, props, codes: codes? } }
        10 => { let pid = k.n()?; let props = k.props()?; let n = k.n()?; let fs: Option<Vec<Vec<u8>>> = (0..n).map(|_| k.lp()).collect(); Body::Unsubscribe { pid, props, filters: fs? } }
        11 => { let pid = k.n()?; let props = k.props()?; let n = k.n()?; let codes: Option<Vec<u64>> = (0..n).map(|_| k.n()).collect(); Body::Unsuback { pid, props, codes: codes? } }
        12 => Body::Pingreq,
        13 => Body::Pingresp,
        14 => Body::Disconnect { tail: k.tail()? },
        15 => Body::Auth { tail: k.tail()? },
        _ => return None,
    };
    Some((ver, b))
}
pub fn replay_line(t: &[u64]) -> String {
    let mut st = PkStats::default();
    match abs_from_tokens(t) {
        Some((ver, b)) => case_line(ver, &b, &mut st),
        None => "pk 0".to_string(),
    }
}

// ---------------------------------------------------------------- C04: arbitrary bytes into the parsers
fn mutate_bytes(rng: &mut Rng, mut b: Vec<u8>) -> Vec<u8> {
    let n = 1 + rng.below(3);
    for _ in 0..n {
        match rng.below(13) {
            12 => {
                // spoil the ShareName of a shared-subscription filter, keeping the bytes well-formed
                if let Some(i) = b.windows(7).position(|w| w == b"$share/") {
                    if i + 7 < b.len() { b[i + 7] = *rng.pick(&[b'+', b'#', b'/']) }
                }
            }
            9 | 10 | 11 => {
                // a property identifier replaced by another identifier whose value has the same shape (the bytes stay
                // well-formed; the property may now be one that is not permitted here, or a second occurrence)
                let cand: Vec<usize> = (0..b.len()).filter(|i| PROP_IDS.contains(&(b[*i] as u64))).collect();
                if !cand.is_empty() {
                    let i = *rng.pick(&cand);
                    let sh = shape(b[i] as u64);
                    let same: Vec<u64> = PROP_IDS.iter().copied().filter(|x| shape(*x) == sh && *x != b[i] as u64).collect();
                    if !same.is_empty() { b[i] = *rng.pick(&same) as u8 }
                }
            }
            0 => if !b.is_empty() { let i = rng.below(b.len() as u64) as usize; b[i] ^= 1 << rng.below(8) },
            1 => if !b.is_empty() { let k = rng.below(b.len() as u64) as usize; b.truncate(k) },
            2 => { let i = rng.below(b.len() as u64 + 1) as usize; b.insert(i, *rng.pick(&[0x00u8, 0x80, 0xff])) }
            3 => if !b.is_empty() { let i = rng.below(b.len() as u64) as usize; b.remove(i); }
            4 => if !b.is_empty() { let i = rng.below(b.len() as u64) as usize; b[i] = *rng.pick(&[0u8, 1, 2, 3, 0x7f, 0x80, 0xfe, 0xff]) },
            5 => if !b.is_empty() { let i = rng.below(b.len() as u64) as usize; b[i] = b[i].wrapping_add(1) },
            6 => if !b.is_empty() { let i = rng.below(b.len() as u64) as usize; b[i] = b[i].wrapping_sub(1) },
            7 => {
                // a non-minimal Variable Byte Integer in place of a small byte
                if !b.is_empty() { let i = rng.below(b.len() as u64) as usize; if b[i] < 0x80 { let v = b[i]; b[i] = v | 0x80; b.insert(i + 1, 0x00) } }
            }
            _ => { let k = rng.below(4); for _ in 0..k { b.push(rng.below(256) as u8) } }
        }
    }
    b
}

/// one parser case.  Line: pkm ver idw fh n body.. then 2 (panic) | 0 err | 1 consumed size reser_len reparse_eq <abstract tokens of the accessors> ; reser bytes
pub fn parse_case(ver: u64, fh: u8, body: &[u8], st: &mut PkStats) -> String {
    let mut o: Vec<u64> = vec![ver, IDW, fh as u64];
    push_bytes(&mut o, body);
    let r = catch_unwind(AssertUnwindSafe(|| {
        match parse_body(ver, fh, body) {
            Err(e) => (0u64, e as u64, Vec::new()),
            Ok((p, consumed)) => {
                let reser = p.to_continuous_buffer();
                let size = p.size();
                let re = match parse_whole(ver, &reser) { Some(Ok((q, _))) => q == p, _ => false };
                let (av, ab) = accessors(&p);
                let mut t: Vec<u64> = vec![consumed as u64, size as u64, re as u64];
                tokens(av, &ab, &mut t);
                push_bytes(&mut t, &reser);
                (1u64, 0, t)
            }
        }
    }));
    match r {
        Err(_) => { st.panics += 1; o.push(2) }
        Ok((0, e, _)) => { st.parse_err += 1; o.push(0); o.push(e) }
        Ok((_, _, t)) => { st.parse_ok += 1; o.push(1); o.extend_from_slice(&t) }
    }
    let mut s = String::with_capacity(o.len() * 4 + 4);
    s.push_str("pkm");
    for x in &o { s.push(' '); s.push_str(&x.to_string()) }
    s
}

pub fn gen_parse_cases(rng: &mut Rng, n: usize, out: &mut Vec<String>, st: &mut PkStats) {
    for _ in 0..n {
        let ver = if rng.chance(1, 3) { 4 } else { 5 };
        let ty = if ver == 5 { rng.range(1, 15) } else { rng.range(1, 14) };
        let mode = rng.below(10);
        if mode == 0 {
            // uniformly random body
            let k = rng.below(12);
            let body: Vec<u8> = (0..k).map(|_| rng.below(256) as u8).collect();
            let fh = ((ty as u8) << 4) | (rng.below(16) as u8);
            out.push(parse_case(ver, fh, &body, st));
            continue;
        }
        let b = gen_body(rng, ver, ty, false);
        let p = match build(ver, &b) { Some(p) => p, None => continue };
        let bytes = p.to_continuous_buffer();
        if bytes.len() > 400 { continue }
        let mut i = 1;
        while i < bytes.len() && bytes[i] & 0x80 != 0 { i += 1 }
        let body = bytes[i + 1..].to_vec();
        let fh = if rng.chance(1, 10) { bytes[0] ^ (1 << rng.below(4)) } else { bytes[0] };
        if mode == 2 && body.len() <= 64 {
            // EVERY proper prefix of a valid body: each length check of each parser is met exactly at its boundary
            for k in 0..body.len() {
                out.push(parse_case(ver, fh, &body[..k], st));
            }
            continue;
        }
        let body = if mode == 1 { body } else { mutate_bytes(rng, body) };
        out.push(parse_case(ver, fh, &body, st));
    }
}

/// every body of length <= maxlen for every parser (exhaustive)
pub fn enum_parse_cases(maxlen: usize, out: &mut Vec<String>, st: &mut PkStats) {
    for ver in [4u64, 5] {
        for ty in 1..=(if ver == 5 { 15u8 } else { 14 }) {
            let flags: Vec<u8> = if ty == 3 { vec![0, 2, 4, 6, 9, 11] } else { vec![if ty == 6 || ty == 8 || ty == 10 { 2 } else { 0 }] };
            for fl in flags {
                let fh = (ty << 4) | fl;
                out.push(parse_case(ver, fh, &[], st));
                if maxlen >= 1 { for a in 0..=255u8 { out.push(parse_case(ver, fh, &[a], st)) } }
                if maxlen >= 2 { for a in 0..=255u8 { for b in 0..=255u8 { out.push(parse_case(ver, fh, &[a, b], st)) } } }
            }
        }
    }
}

/// The same subscription options reached through the chainable setters, starting from options that differ from the
/// wanted ones in every field (so that a setter which does not fully overwrite its field shows up in the built packet).
fn opts_via_setters(o: SubOpts, variant: bool) -> SubOpts {
    use mqtt::packet::RetainHandling;
    let alt = |x: u8| -> u8 { match x { 0 => if variant { 1 } else { 2 }, 1 => 2, _ => 1 } };
    let q = Qos::try_from(alt(o.qos() as u8)).unwrap_or(Qos::AtMostOnce);
    let r = RetainHandling::try_from(alt(o.rh() as u8)).unwrap_or(RetainHandling::SendRetained);
    SubOpts::new().set_qos(q).set_nl(!o.nl()).set_rap(!o.rap()).set_rh(r)
        .set_qos(o.qos()).set_nl(o.nl()).set_rap(o.rap()).set_rh(o.rh())
}
