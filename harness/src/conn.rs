//! Connection-level T-diff: generator + driver, instantiated for u16 and u32 packet ids.
use crate::rng::Rng;

macro_rules! inst {
    ($m:ident, $t:ty) => {
        pub mod $m {
            pub type Pid = $t;
            include!("conn_body.rs");
            include!("conn_gen.rs");
            include!("conn_duo.rs");
        }
    };
}
inst!(c16, u16);
inst!(c32, u32);

pub struct Stats {
    pub inner: c16::CaseStats,
    pub inner32: c32::CaseStats,
    pub cases: u64,
    pub cases_u32: u64,
    pub by_role: [u64; 3],
    pub by_version: [u64; 3],
    pub contract_cases: u64,
    pub abuse_cases: u64,
    pub total_ops: u64,
}

impl Stats {
    pub fn new() -> Self {
        Stats {
            inner: c16::CaseStats::new(),
            inner32: c32::CaseStats::new(),
            cases: 0,
            cases_u32: 0,
            by_role: [0; 3],
            by_version: [0; 3],
            contract_cases: 0,
            abuse_cases: 0,
            total_ops: 0,
        }
    }
    pub fn json(&self) -> String {
        format!(
            "{{\"cases\":{},\"cases_u32_ids\":{},\"by_role_client_server_any\":{:?},\"by_version_311_50_undetermined\":{:?},\"contract_cases\":{},\"abuse_cases\":{},\"total_ops\":{},\"u16\":{},\"u32\":{}}}",
            self.cases, self.cases_u32, self.by_role.to_vec(), self.by_version.to_vec(), self.contract_cases, self.abuse_cases, self.total_ops,
            self.inner.json(), self.inner32.json()
        )
    }
}

/// bias: 0 general; 12 receive-maximum; 13 topic alias; 14 packet size; 15 timers; 7 qos2; 6 store/resume; 16 restore
pub fn generate(seed: u64, n: usize, bias: u64, out: &mut Vec<String>, stats: &mut Stats) {
    generate_pair(seed, n, bias, 0, out, stats)
}

pub fn generate_pair(seed: u64, n: usize, bias: u64, pair: u64, out: &mut Vec<String>, stats: &mut Stats) {
    let mut rng = Rng::new(seed ^ 0xC0_77_11 ^ (bias << 32));
    for _ in 0..n {
        let mut r = rng.fork();
        let wide = r.chance(1, 8);
        let role = r.below(3);
        // version: mostly fixed; undetermined only makes sense for something that can act as a server
        let ver = if role != 0 && r.chance(1, 6) { 0 } else if r.chance(1, 2) { 4 } else { 5 };
        let ver = if bias >= 12 && bias <= 14 && ver == 4 { 5 } else { ver };
        // (paired restore cases include endpoints created with an undetermined version)
        let abuse = if pair != 0 { false } else { r.chance(1, 10) };
        stats.cases += 1;
        stats.by_role[role as usize] += 1;
        stats.by_version[match ver { 4 => 0, 5 => 1, _ => 2 }] += 1;
        if abuse { stats.abuse_cases += 1 } else { stats.contract_cases += 1 }
        let (line, nops) = if wide {
            stats.cases_u32 += 1;
            c32::gen_case_pair(&mut r, role, ver, bias, abuse, pair, &mut stats.inner32)
        } else {
            c16::gen_case_pair(&mut r, role, ver, bias, abuse, pair, &mut stats.inner)
        };
        stats.total_ops += nops;
        out.push(line);
    }
}

/// replay of a paired case: args = kind k_a, then as for replay
pub fn replay_pair(args: &[String]) -> String {
    let pair: u64 = args[0].parse().unwrap();
    let k_a: usize = args[1].parse().unwrap();
    let mut groups: Vec<Vec<u64>> = vec![Vec::new()];
    for a in &args[2..] {
        if a == "|" {
            groups.push(Vec::new());
        } else if let Ok(x) = a.parse::<u64>() {
            groups.last_mut().unwrap().push(x);
        }
    }
    let hdr = groups.remove(0);
    if hdr[3] == 4 {
        c32::replay_pair(pair, k_a, &hdr, &c32::ops_from_tokens(&groups))
    } else {
        c16::replay_pair(pair, k_a, &hdr, &c16::ops_from_tokens(&groups))
    }
}

/// replay: tokens = contract role idmax idw version | op tokens | op tokens ...
pub fn replay(args: &[String]) -> String {
    let mut groups: Vec<Vec<u64>> = vec![Vec::new()];
    for a in args {
        if a == "|" {
            groups.push(Vec::new());
        } else if let Ok(x) = a.parse::<u64>() {
            groups.last_mut().unwrap().push(x);
        }
    }
    let hdr = groups.remove(0);
    if hdr[3] == 4 {
        c32::replay_case(&hdr, &c32::ops_from_tokens(&groups))
    } else {
        c16::replay_case(&hdr, &c16::ops_from_tokens(&groups))
    }
}

pub fn generate_duo(seed: u64, n: usize, out: &mut Vec<String>, stats: &mut Stats) {
    let mut rng = Rng::new(seed ^ 0xD0_0D_01);
    for _ in 0..n {
        let cs = rng.next() >> 3;
        let mut r = Rng::new(cs);
        let (line, nops) = c16::duo_case(cs, &mut r, &mut stats.inner);
        stats.cases += 1;
        stats.total_ops += nops;
        out.push(line);
    }
}

/// replay of one C01 case: the case seed re-runs the same scheduler on the current implementation
pub fn replay_duo(case_seed: u64) -> String {
    let mut st = c16::CaseStats::new();
    let mut r = Rng::new(case_seed);
    c16::duo_case(case_seed, &mut r, &mut st).0
}
