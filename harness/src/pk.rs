//! Codec T-diff (C02, C03, C04): abstract packets -> builders -> bytes / size / buffers / re-parse /
//! accessors, instantiated for u16 and u32 packet identifiers.
macro_rules! inst {
    ($m:ident, $t:ty) => {
        pub mod $m {
            pub type Pid = $t;
            include!("pk_body.rs");
        }
    };
}
inst!(p16, u16);
inst!(p32, u32);

pub fn generate(seed: u64, n: usize, out: &mut Vec<String>) -> String {
    let mut rng = crate::rng::Rng::new(seed ^ 0x9C_0D_EC);
    let mut s16 = p16::PkStats::default();
    let mut s32 = p32::PkStats::default();
    let n32 = n / 5;
    p16::gen_cases(&mut rng, n - n32, out, &mut s16);
    p32::gen_cases(&mut rng, n32, out, &mut s32);
    let by: Vec<u64> = (0..16).map(|i| s16.by_type[i] + s32.by_type[i]).collect();
    format!(
        "{{\"packets\":{},\"u32_id_packets\":{},\"built\":{},\"builder_refused\":{},\"by_type_nibble\":{:?},\"over_1000_bytes\":{},\"panics\":{}}}",
        n, n32, s16.built + s32.built, s16.rejected + s32.rejected, by, s16.big + s32.big, s16.panics + s32.panics
    )
}

/// replay: the abstract tokens of a case (version idw type ...)
pub fn replay(nums: &[u64]) -> String {
    if nums.len() > 1 && nums[1] == 4 { p32::replay_line(nums) } else { p16::replay_line(nums) }
}

pub fn generate_parse(seed: u64, n: usize, enum_len: usize, out: &mut Vec<String>) -> String {
    let mut rng = crate::rng::Rng::new(seed ^ 0xC0_4C_04);
    let mut s16 = p16::PkStats::default();
    let mut s32 = p32::PkStats::default();
    let n32 = n / 5;
    p16::gen_parse_cases(&mut rng, n - n32, out, &mut s16);
    p32::gen_parse_cases(&mut rng, n32, out, &mut s32);
    let before = out.len();
    p16::enum_parse_cases(enum_len, out, &mut s16);
    format!(
        "{{\"mutated_or_random_inputs\":{},\"exhaustive_short_bodies\":{},\"exhaustive_max_body_len\":{},\"parser_accepts\":{},\"parser_rejects\":{},\"panics\":{}}}",
        before, out.len() - before, enum_len, s16.parse_ok + s32.parse_ok, s16.parse_err + s32.parse_err, s16.panics + s32.panics
    )
}
pub fn replay_parse(nums: &[u64]) -> String {
    // ver idw fh n body..
    let n = nums[3] as usize;
    let body: Vec<u8> = nums[4..4 + n].iter().map(|x| *x as u8).collect();
    if nums[1] == 4 {
        p32::parse_case(nums[0], nums[2] as u8, &body, &mut p32::PkStats::default())
    } else {
        p16::parse_case(nums[0], nums[2] as u8, &body, &mut p16::PkStats::default())
    }
}
