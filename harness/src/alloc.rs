//! T-diff driver for ValueAllocator<u16>/<u32>: random op sequences, the interval list after
//! every op (hook), every call under catch_unwind.  Output: one "alloc ..." line per case.
use crate::rng::Rng;
use mqtt_protocol_core::mqtt::ValueAllocator;
use std::fmt::Write;
use std::panic::{catch_unwind, AssertUnwindSafe};

mod num_like {
    pub trait Int: Copy + core::fmt::Debug {
        fn from_u64(v: u64) -> Self;
        fn to_u64(self) -> u64;
        const MAX: u64;
    }
    impl Int for u16 {
        fn from_u64(v: u64) -> Self {
            v as u16
        }
        fn to_u64(self) -> u64 {
            self as u64
        }
        const MAX: u64 = u16::MAX as u64;
    }
    impl Int for u32 {
        fn from_u64(v: u64) -> Self {
            v as u32
        }
        fn to_u64(self) -> u64 {
            self as u64
        }
        const MAX: u64 = u32::MAX as u64;
    }
}

pub struct Stats {
    pub ops: [u64; 7],
    pub panics: u64,
    pub max_intervals: usize,
    pub full: u64,
}

macro_rules! run_case {
    ($t:ty, $rng:expr, $lo:expr, $hi:expr, $nops:expr, $stats:expr, $script:expr) => {{
        let lo: u64 = $lo;
        let hi: u64 = $hi;
        let mx: u64 = <$t>::MAX as u64;
        let mut out = String::new();
        write!(out, "alloc {} {} {}", lo, hi, mx).unwrap();
        let mut a = ValueAllocator::<$t>::new(lo as $t, hi as $t);
        let script: Option<&Vec<(u64, u64)>> = $script;
        let n = match script {
            Some(s) => s.len(),
            None => $nops,
        };
        for i in 0..n {
            let (tag, arg) = match script {
                Some(s) => s[i],
                None => gen_op($rng, lo, hi, mx, &a.verif_intervals().iter().map(|(l, h)| (*l as u64, *h as u64)).collect::<Vec<_>>()),
            };
            $stats.ops[tag as usize] += 1;
            let v = arg as $t;
            let r = catch_unwind(AssertUnwindSafe(|| -> Vec<u64> {
                match tag {
                    0 => a.allocate().map(|x| vec![x as u64]).unwrap_or_default(),
                    1 => a.first_vacant().map(|x| vec![x as u64]).unwrap_or_default(),
                    2 => {
                        a.deallocate(v);
                        vec![]
                    }
                    3 => vec![a.use_value(v) as u64],
                    4 => vec![a.is_used(v) as u64],
                    5 => {
                        a.clear();
                        vec![]
                    }
                    _ => vec![a.interval_count() as u64],
                }
            }));
            match r {
                Err(_) => {
                    $stats.panics += 1;
                    write!(out, " {} {} 1 0 0", tag, arg).unwrap();
                    break;
                }
                Ok(ans) => {
                    write!(out, " {} {} 0 {}", tag, arg, ans.len()).unwrap();
                    for x in &ans {
                        write!(out, " {}", x).unwrap();
                    }
                    if tag == 0 && ans.is_empty() {
                        $stats.full += 1;
                    }
                    let ivs = a.verif_intervals();
                    $stats.max_intervals = $stats.max_intervals.max(ivs.len());
                    write!(out, " {}", ivs.len()).unwrap();
                    for (l, h) in ivs {
                        write!(out, " {} {}", l as u64, h as u64).unwrap();
                    }
                }
            }
        }
        out
    }};
}

/// ops biased to the edges of the current free intervals and of the range
fn gen_op(rng: &mut Rng, lo: u64, hi: u64, mx: u64, ivs: &[(u64, u64)]) -> (u64, u64) {
    let mut interesting: Vec<u64> = vec![lo, hi, lo.saturating_sub(1), (hi + 1).min(mx), 0, mx];
    for (l, h) in ivs {
        for d in [-1i64, 0, 1] {
            let a = *l as i64 + d;
            let b = *h as i64 + d;
            if a >= 0 && a as u64 <= mx {
                interesting.push(a as u64);
            }
            if b >= 0 && b as u64 <= mx {
                interesting.push(b as u64);
            }
        }
    }
    let val = |rng: &mut Rng| -> u64 {
        if rng.chance(3, 4) {
            *rng.pick(&interesting)
        } else {
            rng.range(lo, hi)
        }
    };
    let is_free = |v: u64| ivs.iter().any(|(l, h)| *l <= v && v <= *h);
    match rng.below(100) {
        0..=29 => (0, 0),
        30..=34 => (1, 0),
        35..=59 => {
            // deallocate: mostly a used in-range value (the Rust contract); rarely abuse
            if rng.chance(1, 25) {
                (2, val(rng))
            } else {
                for _ in 0..20 {
                    let v = val(rng);
                    if v >= lo && v <= hi && !is_free(v) {
                        return (2, v);
                    }
                }
                (0, 0)
            }
        }
        60..=79 => (3, val(rng)),
        80..=91 => (4, val(rng)),
        92..=93 => (5, 0),
        _ => (6, 0),
    }
}

pub const RANGES: &[(u64, u64, bool)] = &[
    (1, 1, false),
    (1, 3, false),
    (1, 8, false),
    (0, 7, false),
    (65530, 65535, false),
    (1, 65535, false),
    (0, 65535, false),
    (4294967290, 4294967295, true),
    (1, 4294967295, true),
    (1, 12, true),
];

pub fn generate(seed: u64, n: usize, out: &mut Vec<String>, stats: &mut Stats) {
    let mut rng = Rng::new(seed ^ 0xA110C);
    for _ in 0..n {
        let (lo, hi, wide) = *rng.pick(RANGES);
        let long = rng.chance(1, 10);
        let nops = rng.range(1, if long { 200 } else { 40 }) as usize;
        let line = if wide {
            run_case!(u32, &mut rng, lo, hi, nops, stats, None)
        } else {
            run_case!(u16, &mut rng, lo, hi, nops, stats, None)
        };
        out.push(line);
    }
}

/// every op sequence of length `len` over [1, top] with values in 0..=top+1 (thorough tier)
pub fn enumerate_small(top: u64, len: usize, out: &mut Vec<String>, stats: &mut Stats) {
    let mut alphabet: Vec<(u64, u64)> = vec![(0, 0), (5, 0)];
    for v in 0..=top + 1 {
        alphabet.push((2, v));
        alphabet.push((3, v));
    }
    let k = alphabet.len();
    let total = k.pow(len as u32);
    let mut dummy = Rng::new(0);
    for idx in 0..total {
        let mut script = Vec::with_capacity(len + top as usize + 2);
        let mut x = idx;
        for _ in 0..len {
            script.push(alphabet[x % k]);
            x /= k;
        }
        // observe the final state completely
        for v in 0..=top + 1 {
            script.push((4, v));
        }
        script.push((6, 0));
        let line = run_case!(u16, &mut dummy, 1, top, 0, stats, Some(&script));
        out.push(line);
    }
}

/// replay one explicit case: lo hi wide then (tag arg)*
pub fn replay(nums: &[u64], stats: &mut Stats) -> String {
    let lo = nums[0];
    let hi = nums[1];
    let wide = nums[2] > 65535;
    let script: Vec<(u64, u64)> = nums[3..].chunks(2).map(|c| (c[0], c[1])).collect();
    let mut dummy = Rng::new(0);
    if wide {
        run_case!(u32, &mut dummy, lo, hi, 0, stats, Some(&script))
    } else {
        run_case!(u16, &mut dummy, lo, hi, 0, stats, Some(&script))
    }
}
