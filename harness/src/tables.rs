//! T-exh tables read off the compiled code.  Compile-time `Sendable<Role, u16>` table via the
//! autoref-specialisation probe: resolved by rustc's own trait selection for each (type, role).
use mqtt_protocol_core::mqtt;
use mqtt::connection::{role, Sendable};
use mqtt::packet::{v3_1_1, v5_0};
use std::marker::PhantomData;

struct Probe<T, R>(PhantomData<(T, R)>);
trait Yes {
    fn ok(&self) -> bool;
}
impl<T: Sendable<R, u16>, R: role::RoleType> Yes for Probe<T, R> {
    fn ok(&self) -> bool {
        true
    }
}
trait No {
    fn ok(&self) -> bool;
}
impl<T, R> No for &Probe<T, R> {
    fn ok(&self) -> bool {
        false
    }
}

macro_rules! probe {
    ($t:ty, $r:ty) => {
        (&Probe::<$t, $r>(PhantomData)).ok()
    };
}

macro_rules! row {
    ($out:expr, $ver:expr, $ty:expr, $t:ty) => {
        $out.push(($ver, $ty, 0u64, probe!($t, role::Client)));
        $out.push(($ver, $ty, 1u64, probe!($t, role::Server)));
        $out.push(($ver, $ty, 2u64, probe!($t, role::Any)));
    };
}

/// (packet version 4|5, type nibble, role 0/1/2, T: Sendable<Role, u16>)
pub fn sendable_table() -> Vec<(u64, u64, u64, bool)> {
    let mut o = Vec::new();
    row!(o, 4, 1, v3_1_1::Connect);
    row!(o, 4, 2, v3_1_1::Connack);
    row!(o, 4, 3, v3_1_1::Publish);
    row!(o, 4, 4, v3_1_1::Puback);
    row!(o, 4, 5, v3_1_1::Pubrec);
    row!(o, 4, 6, v3_1_1::Pubrel);
    row!(o, 4, 7, v3_1_1::Pubcomp);
    row!(o, 4, 8, v3_1_1::Subscribe);
    row!(o, 4, 9, v3_1_1::Suback);
    row!(o, 4, 10, v3_1_1::Unsubscribe);
    row!(o, 4, 11, v3_1_1::Unsuback);
    row!(o, 4, 12, v3_1_1::Pingreq);
    row!(o, 4, 13, v3_1_1::Pingresp);
    row!(o, 4, 14, v3_1_1::Disconnect);
    row!(o, 5, 1, v5_0::Connect);
    row!(o, 5, 2, v5_0::Connack);
    row!(o, 5, 3, v5_0::Publish);
    row!(o, 5, 4, v5_0::Puback);
    row!(o, 5, 5, v5_0::Pubrec);
    row!(o, 5, 6, v5_0::Pubrel);
    row!(o, 5, 7, v5_0::Pubcomp);
    row!(o, 5, 8, v5_0::Subscribe);
    row!(o, 5, 9, v5_0::Suback);
    row!(o, 5, 10, v5_0::Unsubscribe);
    row!(o, 5, 11, v5_0::Unsuback);
    row!(o, 5, 12, v5_0::Pingreq);
    row!(o, 5, 13, v5_0::Pingresp);
    row!(o, 5, 14, v5_0::Disconnect);
    row!(o, 5, 15, v5_0::Auth);
    o
}

pub fn write_sendable_v(path: &str) {
    let t = sendable_table();
    let mut s = String::new();
    s.push_str("(* GENERATED on every run by `verif-harness tables` from the compiled crate: for every packet type T and role R,\n   whether rustc resolves `T: Sendable<R, u16>` (what checked_send accepts). *)\n");
    s.push_str("From MQ Require Import Base.Prelude.\n");
    s.push_str("Definition observed_sendable : list (N * N * N * bool) := [\n");
    let rows: Vec<String> = t.iter().map(|(v, ty, r, b)| format!("  ({}, {}, {}, {})", v, ty, r, b)).collect();
    s.push_str(&rows.join(";\n"));
    s.push_str("\n]%N.\n");
    std::fs::write(path, s).unwrap();
}
